// c01: generates Starlark programs from a grammar, parses each with the real
// syntax package (AST dumped as JSON), runs each through the real pipeline
// (parse -> resolve -> compile -> VM) with a recording `trace` builtin, and
// dumps the compiled bytecode through the read-only hook starlark.VerifC01Dump.
//
// CLI
//
//	c01 gen -seed S -n N [-frag P]   generate N programs (P = percent restricted to
//	                                 the "fragment", default 50); one JSON object per program
//	c01 run                          read JSON lines {"id":..,"src":"...","opts":{...}} from stdin
//	                                 and emit the same output objects (features=[], fragment=false
//	                                 unless the input line carries "features"/"fragment")
//
// OUTPUT CONTRACT (one line per program, via hx.Emit)
//
//	{"id": int, "src": string, "opts": {"set":bool,"while":bool,"recursion":bool,"toplevel":bool},
//	 "features": [string...]      generator tags of constructs used ([] in run mode)
//	 "fragment": bool             generator claims the program is inside the fragment
//	 "ast": [stmt...] | null      null if parse failed
//	 "static_error": string|null  parse / resolve / compile error message; then run and prog are null
//	 "run": {"outcome":"ok"|"error"|"panic"|"timeout", "errmsg":string, "errpos":[line,col]|null, "errfn":string,
//	         "trace":[{"args":[repr...],"kwargs":[[name,repr]...]}...],
//	         "globals":[[name,repr]...] (sorted by name; only on ok; null otherwise),
//	         "steps": int},
//	 "prog": <bytecode dump>}
//
// opts maps to syntax.FileOptions{Set, While, Recursion, TopLevelControl};
// GlobalReassign and LoadBindsGlobally stay false.
//
// Running: opts.Parse, then starlark.FileProgram(f, isPredeclared), then
// prog.Init(thread, predeclared). Predeclared = {"trace": builtin}.
// trace(*args, **kwargs) appends {"args":[v.String()...], "kwargs":[[k, v.String()]...]}
// to the transcript AT CALL TIME and returns its first positional argument, else None.
// thread.Load: "m.star" -> {"a": 10, "b": "bee", "fl": frozen [1, 2], "fd": frozen {"k": 1}}; any other module fails.
// thread.SetMaxExecutionSteps(200000): outcome "timeout" when the error text
// contains "too many steps"/"cancelled". Go panics are recovered: outcome "panic".
// steps = thread.ExecutionSteps() after the run. On error, for *starlark.EvalError:
// errpos/errfn = the INNERMOST CallStack frame that is a Starlark function frame
// (Pos.IsValid() and file name != "<builtin>" and line > 0); errmsg = err.Error().
//
// Bytecode dump (`prog`):
//
//	{"toplevel": F, "functions": [F, ...] (Program.Functions in index order),
//	 "constants": [{"t":"int"|"bigint"|"string"|"bytes"|"float","v":"<decimal / raw string / %g>"}...],
//	 "names": [string...], "globals": [string...], "recursion": bool}
//	F = {"name": str, "pos": [line,col], "locals":[names], "cells":[int...], "freevars":[names],
//	     "maxstack":int, "numparams":int, "numkwonly":int, "varargs":bool, "kwargs":bool,
//	     "code": [ {"pc":int, "op":"<compile.Opcode.String() trimmed>", "arg":int, "pos":[line,col]} ... ]}
//
// `code` is decoded LINEARLY from byte 0 exactly like interp.go: op = code[pc];
// if op >= OpcodeArgMin a little-endian 7-bit varint follows. The NOP bytes that
// pad CJMP/ITERJMP/JMP operands to 4 bytes appear as separate `nop` instructions.
// `arg` for jumps is the BYTE address as stored. pos = Funcode.Position(pc).
//
// AST JSON (mirror of package syntax; positions are [line,col]; absent optional
// children are null; IfStmt "false" is [] when there is no else branch)
//
//	Expressions: {"k":"Ident","name":s,"pos":p} | {"k":"Literal","tok":"INT"|"FLOAT"|"STRING"|"BYTES","val":s,"pos":p}
//	 | {"k":"ParenExpr","x":e} | {"k":"ListExpr","list":[e..]} | {"k":"TupleExpr","list":[e..]}
//	 | {"k":"DictExpr","list":[{"k":"DictEntry","key":e,"value":e,"colon":p}..]}
//	 | {"k":"CondExpr","cond":e,"true":e,"false":e} | {"k":"IndexExpr","x":e,"y":e,"lbrack":p}
//	 | {"k":"SliceExpr","x":e,"lo":e|null,"hi":e|null,"step":e|null,"lbrack":p}
//	 | {"k":"Comprehension","curly":bool,"body":e or DictEntry,"clauses":[{"k":"ForClause","vars":e,"x":e,"for":p} | {"k":"IfClause","cond":e}]}
//	 | {"k":"UnaryExpr","op":"-"|"+"|"~"|"not"|"*"|"**","x":e|null,"oppos":p}
//	 | {"k":"BinaryExpr","op":"<token text>","x":e,"y":e,"oppos":p}   (op "=": named argument / default parameter)
//	 | {"k":"DotExpr","x":e,"name":s,"dot":p} | {"k":"CallExpr","fn":e,"args":[e..],"lparen":p}
//	 | {"k":"LambdaExpr","params":[e..],"body":e,"lambda":p}
//	Statements: {"k":"ExprStmt","x":e} | {"k":"BranchStmt","tok":"break"|"continue"|"pass","pos":p}
//	 | {"k":"IfStmt","cond":e,"true":[s..],"false":[s..],"if":p}
//	 | {"k":"AssignStmt","op":"="|"+="|...,"lhs":e,"rhs":e,"oppos":p}
//	 | {"k":"DefStmt","name":Ident,"params":[e..],"body":[s..],"def":p}
//	 | {"k":"ForStmt","vars":e,"x":e,"body":[s..],"for":p} | {"k":"WhileStmt","cond":e,"body":[s..],"while":p}
//	 | {"k":"ReturnStmt","result":e|null,"return":p}
//	 | {"k":"LoadStmt","module":str,"from":[Ident..],"to":[Ident..],"load":p}
//
// The generator (gen.go: typed grammar; scen.go: scenario templates for the
// non-fragment constructs) derives every random choice from
// hx.NewRand(seed).Split(): output is a pure function of (seed, n, frag).
// Extra feature tags beyond the contract list: "err-injected" and
// "err-<kind>" (a dynamic error was injected deliberately; it may sit on a path
// that is not executed), "static-bad" (a static error was injected; the program
// may still be valid under permissive opts), "closure-loop", "comp-shadow",
// "iter-release", "global-late".
package main

import (
	"bufio"
	"encoding/json"
	"flag"
	"fmt"
	"math/big"
	"os"
	"runtime/debug"
	"sort"
	"strings"

	"go.starlark.net/starlark"
	"go.starlark.net/syntax"

	"verifharness/internal/hx"
)

type Opts struct {
	Set       bool `json:"set"`
	While     bool `json:"while"`
	Recursion bool `json:"recursion"`
	Toplevel  bool `json:"toplevel"`
}

type TraceRec struct {
	Args   []string    `json:"args"`
	Kwargs [][2]string `json:"kwargs"`
}

// leakedIterators counts containers reachable from the (possibly partial) globals that still
// have an active iterator after the run has ended -- every exit path must release them.
func leakedIterators(globals starlark.StringDict) int {
	seen := map[starlark.Value]bool{}
	n := 0
	var walk func(v starlark.Value, d int)
	walk = func(v starlark.Value, d int) {
		if v == nil || d > 6 {
			return
		}
		switch x := v.(type) {
		case *starlark.List:
			if seen[x] {
				return
			}
			seen[x] = true
			if c, ok := starlark.VerifIterCount(x); ok && c > 0 {
				n++
			}
			for i := 0; i < x.Len(); i++ {
				walk(x.Index(i), d+1)
			}
		case *starlark.Dict:
			if seen[x] {
				return
			}
			seen[x] = true
			if c, ok := starlark.VerifIterCount(x); ok && c > 0 {
				n++
			}
			for _, it := range x.Items() {
				walk(it[0], d+1)
				walk(it[1], d+1)
			}
		case starlark.Tuple:
			for _, e := range x {
				walk(e, d+1)
			}
		}
	}
	for _, v := range globals {
		walk(v, 0)
	}
	return n
}

type Run struct {
	Leaked   int         `json:"leaked"` // containers left locked by an iterator after the run
	Outcome  string      `json:"outcome"`
	ErrMsg   string      `json:"errmsg"`
	ErrPos   *[2]int32   `json:"errpos"`
	ErrFn    string      `json:"errfn"`
	ErrStack [][2]int32  `json:"errstack"` // positions of all Starlark-function frames, outermost first
	Trace    []TraceRec  `json:"trace"`
	Globals  [][2]string `json:"globals"`
	Steps    uint64      `json:"steps"`
}

// A Call is an entry into the module through the Go API after initialisation:
// starlark.Call(thread, globals[Fn], Args, nil) on an idle thread.
type CallArg struct {
	T string `json:"t"` // int | str | bool | none
	V string `json:"v"`
}
type Call struct {
	Fn   string    `json:"fn"`
	Args []CallArg `json:"args"`
}

type Out struct {
	Calls       []Call   `json:"calls"`
	ID          int      `json:"id"`
	Src         string   `json:"src"`
	Opts        Opts     `json:"opts"`
	Features    []string `json:"features"`
	Fragment    bool     `json:"fragment"`
	AST         any      `json:"ast"`
	StaticError *string  `json:"static_error"`
	Run         *Run     `json:"run"`
	Prog        any      `json:"prog"`
}

const maxSteps = 200000

// ---------------------------------------------------------------- AST dump

type M = map[string]any

func pos(p syntax.Position) [2]int32 { return [2]int32{p.Line, p.Col} }

func exprs(xs []syntax.Expr) []any {
	out := make([]any, 0, len(xs))
	for _, x := range xs {
		out = append(out, expr(x))
	}
	return out
}

func idents(xs []*syntax.Ident) []any {
	out := make([]any, 0, len(xs))
	for _, x := range xs {
		out = append(out, expr(x))
	}
	return out
}

func litVal(l *syntax.Literal) string {
	switch v := l.Value.(type) {
	case string:
		return v
	case int64:
		return fmt.Sprint(v)
	case *big.Int:
		return v.String()
	case float64:
		return fmt.Sprintf("%g", v)
	}
	return fmt.Sprint(l.Value)
}

func litTok(t syntax.Token) string {
	switch t {
	case syntax.INT:
		return "INT"
	case syntax.FLOAT:
		return "FLOAT"
	case syntax.STRING:
		return "STRING"
	case syntax.BYTES:
		return "BYTES"
	}
	return t.String()
}

func expr(e syntax.Expr) any {
	if e == nil {
		return nil
	}
	switch e := e.(type) {
	case *syntax.Ident:
		if e == nil {
			return nil
		}
		return M{"k": "Ident", "name": e.Name, "pos": pos(e.NamePos)}
	case *syntax.Literal:
		return M{"k": "Literal", "tok": litTok(e.Token), "val": litVal(e), "pos": pos(e.TokenPos)}
	case *syntax.ParenExpr:
		return M{"k": "ParenExpr", "x": expr(e.X)}
	case *syntax.ListExpr:
		return M{"k": "ListExpr", "list": exprs(e.List)}
	case *syntax.TupleExpr:
		return M{"k": "TupleExpr", "list": exprs(e.List)}
	case *syntax.DictExpr:
		return M{"k": "DictExpr", "list": exprs(e.List)}
	case *syntax.DictEntry:
		return M{"k": "DictEntry", "key": expr(e.Key), "value": expr(e.Value), "colon": pos(e.Colon)}
	case *syntax.CondExpr:
		return M{"k": "CondExpr", "cond": expr(e.Cond), "true": expr(e.True), "false": expr(e.False)}
	case *syntax.IndexExpr:
		return M{"k": "IndexExpr", "x": expr(e.X), "y": expr(e.Y), "lbrack": pos(e.Lbrack)}
	case *syntax.SliceExpr:
		return M{"k": "SliceExpr", "x": expr(e.X), "lo": expr(e.Lo), "hi": expr(e.Hi), "step": expr(e.Step), "lbrack": pos(e.Lbrack)}
	case *syntax.Comprehension:
		cl := make([]any, 0, len(e.Clauses))
		for _, c := range e.Clauses {
			switch c := c.(type) {
			case *syntax.ForClause:
				cl = append(cl, M{"k": "ForClause", "vars": expr(c.Vars), "x": expr(c.X), "for": pos(c.For)})
			case *syntax.IfClause:
				cl = append(cl, M{"k": "IfClause", "cond": expr(c.Cond)})
			}
		}
		return M{"k": "Comprehension", "curly": e.Curly, "body": expr(e.Body), "clauses": cl}
	case *syntax.UnaryExpr:
		return M{"k": "UnaryExpr", "op": e.Op.String(), "x": expr(e.X), "oppos": pos(e.OpPos)}
	case *syntax.BinaryExpr:
		return M{"k": "BinaryExpr", "op": e.Op.String(), "x": expr(e.X), "y": expr(e.Y), "oppos": pos(e.OpPos)}
	case *syntax.DotExpr:
		return M{"k": "DotExpr", "x": expr(e.X), "name": e.Name.Name, "dot": pos(e.Dot)}
	case *syntax.CallExpr:
		return M{"k": "CallExpr", "fn": expr(e.Fn), "args": exprs(e.Args), "lparen": pos(e.Lparen)}
	case *syntax.LambdaExpr:
		return M{"k": "LambdaExpr", "params": exprs(e.Params), "body": expr(e.Body), "lambda": pos(e.Lambda)}
	}
	return M{"k": fmt.Sprintf("?%T", e)}
}

func stmts(ss []syntax.Stmt) []any {
	out := make([]any, 0, len(ss))
	for _, s := range ss {
		out = append(out, stmt(s))
	}
	return out
}

func stmt(s syntax.Stmt) any {
	switch s := s.(type) {
	case *syntax.ExprStmt:
		return M{"k": "ExprStmt", "x": expr(s.X)}
	case *syntax.BranchStmt:
		return M{"k": "BranchStmt", "tok": s.Token.String(), "pos": pos(s.TokenPos)}
	case *syntax.IfStmt:
		return M{"k": "IfStmt", "cond": expr(s.Cond), "true": stmts(s.True), "false": stmts(s.False), "if": pos(s.If)}
	case *syntax.AssignStmt:
		return M{"k": "AssignStmt", "op": s.Op.String(), "lhs": expr(s.LHS), "rhs": expr(s.RHS), "oppos": pos(s.OpPos)}
	case *syntax.DefStmt:
		return M{"k": "DefStmt", "name": expr(s.Name), "params": exprs(s.Params), "body": stmts(s.Body), "def": pos(s.Def)}
	case *syntax.ForStmt:
		return M{"k": "ForStmt", "vars": expr(s.Vars), "x": expr(s.X), "body": stmts(s.Body), "for": pos(s.For)}
	case *syntax.WhileStmt:
		return M{"k": "WhileStmt", "cond": expr(s.Cond), "body": stmts(s.Body), "while": pos(s.While)}
	case *syntax.ReturnStmt:
		return M{"k": "ReturnStmt", "result": expr(s.Result), "return": pos(s.Return)}
	case *syntax.LoadStmt:
		return M{"k": "LoadStmt", "module": s.ModuleName(), "from": idents(s.From), "to": idents(s.To), "load": pos(s.Load)}
	}
	return M{"k": fmt.Sprintf("?%T", s)}
}

// ---------------------------------------------------------------- running

func loader(_ *starlark.Thread, module string) (starlark.StringDict, error) {
	if module == "m.star" {
		// a fresh module each time: ints, a string, and two FROZEN containers
		fl := starlark.NewList([]starlark.Value{starlark.MakeInt(1), starlark.MakeInt(2)})
		fd := starlark.NewDict(1)
		fd.SetKey(starlark.String("k"), starlark.MakeInt(1))
		d := starlark.StringDict{"a": starlark.MakeInt(10), "b": starlark.String("bee"), "fl": fl, "fd": fd}
		d.Freeze()
		return d, nil
	}
	return nil, fmt.Errorf("no such module: %s", module)
}

func runOne(o *Out) {
	fo := &syntax.FileOptions{Set: o.Opts.Set, While: o.Opts.While, Recursion: o.Opts.Recursion, TopLevelControl: o.Opts.Toplevel}
	if o.Features == nil {
		o.Features = []string{}
	}
	var run *Run
	defer func() {
		if e := recover(); e != nil {
			if run == nil {
				run = &Run{Trace: []TraceRec{}}
			}
			run.Outcome = "panic"
			run.ErrMsg = fmt.Sprint(e)
			run.Globals = nil
			o.Run = run
		}
	}()

	f, err := fo.Parse("c01.star", o.Src, 0)
	if err != nil {
		msg := err.Error()
		o.StaticError = &msg
		return
	}
	o.AST = stmts(f.Stmts) // before resolving

	isPredeclared := func(name string) bool { return name == "trace" }
	prog, err := starlark.FileProgram(f, isPredeclared)
	if err != nil {
		msg := err.Error()
		o.StaticError = &msg
		return
	}
	o.Prog = starlark.VerifC01Dump(prog)

	run = &Run{Trace: []TraceRec{}}
	trace := starlark.NewBuiltin("trace", func(_ *starlark.Thread, _ *starlark.Builtin, args starlark.Tuple, kwargs []starlark.Tuple) (starlark.Value, error) {
		rec := TraceRec{Args: make([]string, 0, len(args)), Kwargs: make([][2]string, 0, len(kwargs))}
		for _, a := range args {
			rec.Args = append(rec.Args, a.String())
		}
		for _, kv := range kwargs {
			rec.Kwargs = append(rec.Kwargs, [2]string{string(kv[0].(starlark.String)), kv[1].String()})
		}
		run.Trace = append(run.Trace, rec)
		if len(args) > 0 {
			return args[0], nil
		}
		return starlark.None, nil
	})
	thread := &starlark.Thread{
		Name:  "c01",
		Load:  loader,
		Print: func(*starlark.Thread, string) {},
	}
	thread.SetMaxExecutionSteps(maxSteps)
	globals, err := prog.Init(thread, starlark.StringDict{"trace": trace})
	run.Steps = thread.ExecutionSteps()
	if err == nil {
		run.Outcome = "ok"
		names := make([]string, 0, len(globals))
		for k := range globals {
			names = append(names, k)
		}
		sort.Strings(names)
		run.Globals = make([][2]string, 0, len(names))
		for _, k := range names {
			run.Globals = append(run.Globals, [2]string{k, globals[k].String()})
		}
		// the embedder's part of module execution (spec: "Immediately after execution of a Starlark
		// module, all values in its top-level environment are frozen")
		globals.Freeze()
		// entries through the Go API: each on an idle thread; the first failure ends the run
		for _, c := range o.Calls {
			fn, ok := globals[c.Fn]
			if !ok {
				err = fmt.Errorf("no global %s", c.Fn)
				break
			}
			args := make(starlark.Tuple, 0, len(c.Args))
			for _, a := range c.Args {
				switch a.T {
				case "int":
					n, _ := new(big.Int).SetString(a.V, 10)
					args = append(args, starlark.MakeBigInt(n))
				case "str":
					args = append(args, starlark.String(a.V))
				case "bool":
					args = append(args, starlark.Bool(a.V == "true"))
				default:
					args = append(args, starlark.None)
				}
			}
			th := &starlark.Thread{Name: "c01-call", Load: loader, Print: func(*starlark.Thread, string) {}}
			th.SetMaxExecutionSteps(maxSteps)
			var v starlark.Value
			v, err = starlark.Call(th, fn, args, nil)
			if err != nil {
				break
			}
			run.Trace = append(run.Trace, TraceRec{Args: []string{starlark.String("<result>").String(), v.String()}, Kwargs: [][2]string{}})
		}
	}
	if err != nil {
		run.Outcome = "error"
		run.Globals = nil
		run.ErrMsg = err.Error()
		if strings.Contains(run.ErrMsg, "too many steps") || strings.Contains(run.ErrMsg, "cancelled") {
			run.Outcome = "timeout"
		}
		if ee, ok := err.(*starlark.EvalError); ok {
			for _, fr := range ee.CallStack {
				if fr.Pos.IsValid() && fr.Pos.Filename() != "<builtin>" && fr.Pos.Line > 0 {
					run.ErrStack = append(run.ErrStack, pos(fr.Pos))
				}
			}
			for i := len(ee.CallStack) - 1; i >= 0; i-- {
				fr := ee.CallStack[i]
				if fr.Pos.IsValid() && fr.Pos.Filename() != "<builtin>" && fr.Pos.Line > 0 {
					p := pos(fr.Pos)
					run.ErrPos = &p
					run.ErrFn = fr.Name
					break
				}
			}
		}
	}
	run.Leaked = leakedIterators(globals)
	o.Run = run
}

// ---------------------------------------------------------------- main

func usage() {
	fmt.Fprintln(os.Stderr, "usage: c01 gen -seed S -n N [-frag P] | c01 run < lines.json")
	os.Exit(2)
}

func main() {
	debug.SetGCPercent(400)
	if len(os.Args) < 2 {
		usage()
	}
	switch os.Args[1] {
	case "gen":
		fs := flag.NewFlagSet("gen", flag.ExitOnError)
		seed := fs.Uint64("seed", 1, "")
		n := fs.Int("n", 300, "")
		frag := fs.Int("frag", 50, "percent of programs restricted to the fragment")
		fs.Parse(os.Args[2:])
		// hx.NewRand(k) and hx.NewRand(k+1) produce the same stream shifted by one
		// draw; Split() once so that neighbouring seeds give unrelated programs.
		r := hx.NewRand(*seed).Split()
		for i := 0; i < *n; i++ {
			o := generate(r.Split(), i, *frag)
			runOne(o)
			hx.Emit(o)
		}
	case "run":
		sc := bufio.NewScanner(os.Stdin)
		sc.Buffer(make([]byte, 1<<20), 1<<26)
		for sc.Scan() {
			line := strings.TrimSpace(sc.Text())
			if line == "" {
				continue
			}
			var in struct {
				ID       int      `json:"id"`
				Src      string   `json:"src"`
				Opts     Opts     `json:"opts"`
				Features []string `json:"features"`
				Calls    []Call   `json:"calls"`
				Fragment bool     `json:"fragment"`
			}
			if err := json.Unmarshal([]byte(line), &in); err != nil {
				fmt.Fprintln(os.Stderr, "c01 run: bad input line:", err)
				os.Exit(1)
			}
			o := &Out{ID: in.ID, Src: in.Src, Opts: in.Opts, Features: in.Features, Fragment: in.Fragment, Calls: in.Calls}
			runOne(o)
			hx.Emit(o)
		}
	default:
		usage()
	}
	hx.Flush()
}
