package main

// Grammar-based, typed generator of Starlark source text.
//
// The generator tracks a static type for every variable it introduces so that
// programs are mostly dynamically well-typed, a lower bound on sequence lengths
// so that constant indices are mostly in range, and alias groups of lists/dicts
// so that mutation during iteration happens (almost) only when it is injected
// deliberately.

import (
	"fmt"
	"sort"
	"strings"

	"verifharness/internal/hx"
)

type typ int

const (
	tInt typ = iota
	tBool
	tStr
	tList  // list of ints
	tTuple // tuple of ints
	tDict  // dict "k0".."kn" -> int   (non-fragment only)
	tNone
)

// precedence levels
const (
	pCond = iota
	pOr
	pAnd
	pNot
	pCmp
	pBor
	pXor
	pBand
	pShift
	pAdd
	pMul
	pUn
	pPrim
)

type ex struct {
	s    string
	p    int
	lit  bool // bare addable literal/display (string, list, tuple), possibly parenthesised
	ilit bool // bare int literal
	n    int  // known lower bound on length (sequences / dict keys k0..k{n-1})
	grp  int  // lists/dicts: alias group; 0 unknown, -1 fresh object
}

type vinfo struct {
	name   string
	t      typ
	minlen int
	group  int
	lvl    int // function nesting level that owns the variable (0 = module)
}

type fninfo struct {
	name    string
	params  []typ
	ret     typ
	cost    int
	mutates bool
}

type gen struct {
	r     *hx.Rand
	o     Opts
	frag  bool
	feats map[string]bool
	taken map[string]bool
	sb    strings.Builder
	ind   int

	nG, nF, nL int
	groupCtr   int

	vars  []vinfo
	funcs []fninfo

	lvl       int    // 0 = module level
	loops     int    // loop nesting inside the current function / module
	nest      bool   // the next loop is the outer loop of a nestedLoopStmt
	cands     []Call // module-level functions the host may call after initialisation
	forceExit bool   // the next loop gets a break / continue in its body
	ctl       int    // block nesting inside the current function / module
	iter      []int
	iterAny   int
	ret       typ
	cur       *fninfo
	cost      int // accumulated cost of the current function body
	topCost   int
	errKind   int
	errCount  int
	nstmt     int
}

const (
	errNone = iota
	errIntStr
	errIndex
	errUnbound
	errDivZero
	errArity
	errMutIter
	errUnpack      // non-fragment
	errNotCallable // non-fragment
	errKinds
)

func (g *gen) tag(s string) { g.feats[s] = true }

func (g *gen) line(format string, a ...any) {
	g.sb.WriteString(strings.Repeat("    ", g.ind))
	if len(a) == 0 {
		g.sb.WriteString(format)
	} else {
		fmt.Fprintf(&g.sb, format, a...)
	}
	g.sb.WriteByte('\n')
}

// raw emits one line of literal text.
func (g *gen) raw(s string) {
	g.sb.WriteString(strings.Repeat("    ", g.ind))
	g.sb.WriteString(s)
	g.sb.WriteByte('\n')
}

func (g *gen) chance(pct int) bool { return g.r.Intn(100) < pct }

func (g *gen) freshG() string { g.nG++; return fmt.Sprintf("g%d", g.nG) }
func (g *gen) freshF() string { g.nF++; return fmt.Sprintf("f%d", g.nF) }
func (g *gen) freshL() string { g.nL++; return fmt.Sprintf("x%d", g.nL) }
func (g *gen) freshVar() string {
	if g.lvl == 0 {
		return g.freshG()
	}
	return g.freshL()
}
func (g *gen) newGroup() int { g.groupCtr++; return g.groupCtr }

func (g *gen) mult() int {
	m := 1
	for i := 0; i < g.loops && i < 4; i++ {
		m *= 4
	}
	return m
}

func (g *gen) addCost(c int) {
	if g.lvl == 0 {
		g.topCost += c
	} else {
		g.cost += c
	}
}

func (g *gen) iterating() bool { return len(g.iter) > 0 || g.iterAny > 0 }

// canMutate reports whether a structural mutation / element assignment of v is
// safe with respect to the loops currently open in this function.
func (g *gen) canMutate(v *vinfo) bool {
	if g.iterating() {
		if g.iterAny > 0 || v.group == 0 || v.lvl != g.lvl {
			return false
		}
		for _, x := range g.iter {
			if x == v.group {
				return false
			}
		}
		return true
	}
	return true
}

func (g *gen) noteMutation(v *vinfo) {
	if g.cur != nil && (v.group == 0 || v.lvl != g.lvl) {
		g.cur.mutates = true
	}
}

func (g *gen) pickVar(pred func(*vinfo) bool) *vinfo {
	var idx []int
	for i := range g.vars {
		if pred(&g.vars[i]) {
			idx = append(idx, i)
		}
	}
	if len(idx) == 0 {
		return nil
	}
	// prefer recent variables
	k := len(idx) - 1 - g.r.Intn(len(idx))
	if g.chance(50) {
		k = len(idx) - 1 - g.r.Intn((len(idx)+1)/2)
	}
	return &g.vars[idx[k]]
}

func (g *gen) varOf(t typ) *vinfo {
	return g.pickVar(func(v *vinfo) bool { return v.t == t })
}

func (g *gen) par(e ex, min int) string {
	if e.p < min || g.r.Intn(14) == 0 {
		return "(" + e.s + ")"
	}
	return e.s
}

// ------------------------------------------------------------ expressions

var strPool = []string{"a", "b", "ab", "x1", "foo", "k2", "zz", "q", "abc", "m7"}

func (g *gen) strLit() ex {
	s := hx.Pick(g.r, strPool)
	if g.r.Intn(25) == 0 {
		s = ""
	}
	return ex{s: `"` + s + `"`, p: pPrim, lit: true, n: len(s)}
}

var bigLits = []string{"1180591620717411303424", "4611686018427387904", "9223372036854775807", "9223372036854775808", "4294967296", "2147483648"}

func (g *gen) intLit() ex {
	k := g.r.Intn(100)
	switch {
	case k < 5:
		return ex{s: hx.Pick(g.r, bigLits), p: pPrim, ilit: true}
	case k < 15:
		return ex{s: fmt.Sprintf("-%d", 1+g.r.Intn(9)), p: pUn}
	case k < 25:
		return ex{s: fmt.Sprint(10 + g.r.Intn(90)), p: pPrim, ilit: true}
	}
	return ex{s: fmt.Sprint(g.r.Intn(10)), p: pPrim, ilit: true}
}

func (g *gen) wrapTrace(e ex) ex {
	k := g.r.Intn(100)
	if k < 16 {
		return ex{s: "trace(" + e.s + ")", p: pPrim, n: e.n, grp: e.grp}
	}
	if k < 19 {
		var second string
		if g.chance(50) {
			second = g.strLit().s
		} else {
			second = g.intLit().s
		}
		return ex{s: "trace(" + e.s + ", " + second + ")", p: pPrim, n: e.n, grp: e.grp}
	}
	return e
}

func (g *gen) forceTrace(e ex) ex {
	return ex{s: "trace(" + e.s + ")", p: pPrim, n: e.n, grp: e.grp}
}

// E generates an expression of static type t with at most d further levels.
func (g *gen) E(t typ, d int) ex {
	var e ex
	switch t {
	case tInt:
		e = g.intRaw(d)
	case tBool:
		e = g.boolRaw(d)
	case tStr:
		e = g.strRaw(d)
	case tList:
		e = g.listRaw(d)
	case tTuple:
		e = g.tupleRaw(d)
	case tDict:
		e = g.dictRaw(d)
	default:
		e = ex{s: "None", p: pPrim}
	}
	return g.wrapTrace(e)
}

// nonLit generates an expression that is not a bare addable literal (after
// removing parentheses); used for the right operands of + in the fragment.
func (g *gen) nonLit(t typ, d int) ex {
	for i := 0; i < 4; i++ {
		e := g.E(t, d)
		if !e.lit {
			return e
		}
	}
	return g.forceTrace(g.E(t, 0))
}

func (g *gen) anyE(d int) ex {
	ts := []typ{tInt, tInt, tStr, tBool, tList, tTuple, tNone}
	if !g.frag {
		ts = append(ts, tDict)
	}
	return g.E(hx.Pick(g.r, ts), d)
}

func (g *gen) intAtom() ex {
	if g.chance(60) {
		if v := g.varOf(tInt); v != nil {
			return ex{s: v.name, p: pPrim}
		}
	}
	return g.intLit()
}

// seqWithLen returns a sequence expression with a known positive length bound.
func (g *gen) seqForIndex(d int) (ex, bool) {
	k := g.r.Intn(10)
	if k < 6 {
		if v := g.pickVar(func(v *vinfo) bool { return (v.t == tList || v.t == tTuple) && v.minlen > 0 }); v != nil {
			return ex{s: v.name, p: pPrim, n: v.minlen}, true
		}
	}
	if k < 8 {
		e := g.listDisplay(d, 1)
		return e, true
	}
	e := g.tupleDisplay(d, 1)
	return e, true
}

func (g *gen) indexOf(n int) ex {
	i := g.r.Intn(n)
	var e ex
	if g.chance(25) {
		e = ex{s: fmt.Sprintf("-%d", i+1), p: pUn}
	} else {
		e = ex{s: fmt.Sprint(i), p: pPrim, ilit: true}
	}
	if g.chance(25) {
		e = g.forceTrace(e)
	}
	return e
}

func (g *gen) callUser(t typ, d int) (ex, bool) {
	var cand []int
	for i, f := range g.funcs {
		if f.ret == t && f.cost*g.mult() <= 300 {
			cand = append(cand, i)
		}
	}
	if len(cand) == 0 {
		return ex{}, false
	}
	f := &g.funcs[cand[g.r.Intn(len(cand))]]
	if f.mutates && g.iterating() {
		return ex{}, false
	}
	budget := 1200
	used := g.cost
	if g.lvl == 0 {
		budget = 4000
		used = g.topCost
	}
	if used+f.cost*g.mult() > budget {
		return ex{}, false
	}
	g.addCost(f.cost * g.mult())
	if g.cur != nil && f.mutates {
		g.cur.mutates = true
	}
	args := make([]string, len(f.params))
	for i, pt := range f.params {
		args[i] = g.E(pt, d-1).s
	}
	return ex{s: f.name + "(" + strings.Join(args, ", ") + ")", p: pPrim}, true
}

func (g *gen) condE(t typ, d int) ex {
	a := g.E(t, d-1)
	c := g.cond(d - 1)
	b := g.E(t, d-1)
	return ex{s: g.par(a, pOr) + " if " + g.par(c, pOr) + " else " + g.par(b, pCond), p: pCond}
}

func (g *gen) intRaw(d int) ex {
	if d <= 0 || g.chance(25) {
		return g.intAtom()
	}
	for try := 0; try < 6; try++ {
		c := g.r.Intn(24)
		switch {
		case c < 7:
			op := hx.Pick(g.r, []string{"+", "-", "*", "+", "-"})
			p := pAdd
			if op == "*" {
				p = pMul
			}
			l, r := g.E(tInt, d-1), g.E(tInt, d-1)
			if l.ilit && op == "-" {
				g.tag("const-left-noncomm")
			}
			return ex{s: g.par(l, p) + " " + op + " " + g.par(r, p+1), p: p}
		case c < 9:
			op := hx.Pick(g.r, []string{"//", "%"})
			l := g.E(tInt, d-1)
			k := fmt.Sprint(1 + g.r.Intn(7))
			if g.chance(20) {
				k = "-" + k
			}
			return ex{s: g.par(l, pMul) + " " + op + " " + k, p: pMul}
		case c < 11:
			return g.condE(tInt, d)
		case c < 13:
			t := hx.Pick(g.r, []typ{tList, tList, tTuple, tStr})
			if t == tList && g.chance(30) {
				return ex{s: fmt.Sprintf("len(range(%d))", g.r.Intn(5)), p: pPrim}
			}
			return ex{s: "len(" + g.E(t, d-1).s + ")", p: pPrim}
		case c < 16:
			seq, ok := g.seqForIndex(d - 1)
			if !ok || seq.n <= 0 {
				continue
			}
			return ex{s: g.par(seq, pPrim) + "[" + g.indexOf(seq.n).s + "]", p: pPrim}
		case c < 18:
			if e, ok := g.callUser(tInt, d); ok {
				return e
			}
		case c < 19:
			op := hx.Pick(g.r, []string{"and", "or"})
			p := pAnd
			if op == "or" {
				p = pOr
			}
			l, r := g.E(tInt, d-1), g.E(tInt, d-1)
			if strings.Contains(l.s, "trace(") || strings.Contains(r.s, "trace(") {
				g.tag("shortcircuit-effect")
			}
			return ex{s: g.par(l, p) + " " + op + " " + g.par(r, p+1), p: p}
		case c < 20:
			x := g.E(tInt, d-1)
			return ex{s: "-" + g.par(x, pUn), p: pUn}
		default:
			if g.frag {
				continue
			}
			return g.intExtra(d)
		}
	}
	return g.intAtom()
}

func (g *gen) intExtra(d int) ex {
	switch g.r.Intn(9) {
	case 0:
		op := hx.Pick(g.r, []string{"&", "|", "^"})
		p := map[string]int{"&": pBand, "|": pBor, "^": pXor}[op]
		l, r := g.E(tInt, d-1), g.E(tInt, d-1)
		return ex{s: g.par(l, p) + " " + op + " " + g.par(r, p+1), p: p}
	case 1:
		op := hx.Pick(g.r, []string{"<<", ">>"})
		l := g.E(tInt, d-1)
		if l.ilit {
			g.tag("const-left-noncomm")
		}
		return ex{s: g.par(l, pShift) + " " + op + " " + fmt.Sprint(g.r.Intn(5)), p: pShift}
	case 2:
		x := g.E(tInt, d-1)
		return ex{s: hx.Pick(g.r, []string{"~", "+"}) + g.par(x, pUn), p: pUn}
	case 3:
		if v := g.pickVar(func(v *vinfo) bool { return v.t == tDict && v.minlen > 0 }); v != nil {
			g.tag("dict")
			k := ex{s: fmt.Sprintf(`"k%d"`, g.r.Intn(v.minlen)), p: pPrim}
			if g.chance(30) {
				k = g.forceTrace(k)
			}
			return ex{s: v.name + "[" + k.s + "]", p: pPrim}
		}
		fallthrough
	case 4:
		d0 := g.E(tDict, d-1)
		g.tag("dict")
		g.tag("dot")
		return ex{s: g.par(d0, pPrim) + fmt.Sprintf(`.get("k%d", %s)`, g.r.Intn(4), g.E(tInt, d-1).s), p: pPrim}
	case 5:
		g.tag("lambda")
		q := g.freshL()
		mark := len(g.vars)
		g.vars = append(g.vars, vinfo{name: q, t: tInt, lvl: g.lvl + 1})
		g.lvl++
		body := g.E(tInt, d-1)
		g.lvl--
		g.vars = g.vars[:mark]
		return ex{s: "(lambda " + q + ": " + body.s + ")(" + g.E(tInt, d-1).s + ")", p: pPrim}
	case 6:
		return ex{s: "len(" + g.E(tDict, d-1).s + ")", p: pPrim}
	case 7:
		// slice then len
		g.tag("slice")
		return ex{s: "len(" + g.sliceOf(g.E(hx.Pick(g.r, []typ{tList, tStr, tTuple}), d-1), d-1).s + ")", p: pPrim}
	default:
		l := g.E(tInt, d-1)
		if l.ilit {
			g.tag("const-left-noncomm")
		}
		r := g.E(tInt, d-1)
		return ex{s: g.par(l, pMul) + " // (" + g.par(r, pMul) + " * 2 + 1)", p: pMul}
	}
}

func (g *gen) sliceOf(x ex, d int) ex {
	g.tag("slice")
	part := func(pct int) string {
		if !g.chance(pct) {
			return ""
		}
		e := ex{s: fmt.Sprint(g.r.Intn(4)), p: pPrim}
		if g.chance(25) {
			e.s = "-" + fmt.Sprint(1+g.r.Intn(3))
		}
		if g.chance(25) {
			e = g.forceTrace(e)
		}
		return e.s
	}
	s := g.par(x, pPrim) + "[" + part(60) + ":" + part(60)
	if g.chance(30) {
		st := hx.Pick(g.r, []string{"1", "2", "-1", "-2", "trace(2)"})
		s += ":" + st
	}
	return ex{s: s + "]", p: pPrim, grp: -1}
}

func (g *gen) boolRaw(d int) ex {
	if d <= 0 || g.chance(15) {
		if g.chance(50) {
			if v := g.varOf(tBool); v != nil {
				return ex{s: v.name, p: pPrim}
			}
		}
		return ex{s: hx.Pick(g.r, []string{"True", "False"}), p: pPrim}
	}
	for try := 0; try < 6; try++ {
		c := g.r.Intn(20)
		switch {
		case c < 7:
			op := hx.Pick(g.r, []string{"<", "<=", ">", ">=", "==", "!="})
			l, r := g.E(tInt, d-1), g.E(tInt, d-1)
			if l.ilit && op != "==" && op != "!=" {
				g.tag("const-left-noncomm")
			}
			return ex{s: g.par(l, pCmp+1) + " " + op + " " + g.par(r, pCmp+1), p: pCmp}
		case c < 9:
			t := hx.Pick(g.r, []typ{tStr, tList, tTuple, tBool, tStr})
			op := hx.Pick(g.r, []string{"==", "!="})
			if t == tStr && g.chance(30) {
				op = hx.Pick(g.r, []string{"<", ">=", "<=", ">"})
			}
			l, r := g.E(t, d-1), g.E(t, d-1)
			return ex{s: g.par(l, pCmp+1) + " " + op + " " + g.par(r, pCmp+1), p: pCmp}
		case c < 12:
			op := hx.Pick(g.r, []string{"in", "not in"})
			var l, r ex
			if g.chance(25) {
				l, r = g.E(tStr, d-1), g.E(tStr, d-1)
			} else {
				l = g.E(tInt, d-1)
				if g.chance(25) {
					r = ex{s: fmt.Sprintf("range(%d)", g.r.Intn(6)), p: pPrim}
				} else {
					r = g.E(hx.Pick(g.r, []typ{tList, tTuple}), d-1)
				}
			}
			return ex{s: g.par(l, pCmp+1) + " " + op + " " + g.par(r, pCmp+1), p: pCmp}
		case c < 14:
			x := g.cond(d - 1)
			return ex{s: "not " + g.par(x, pNot), p: pNot}
		case c < 17:
			op := hx.Pick(g.r, []string{"and", "or"})
			p := pAnd
			if op == "or" {
				p = pOr
			}
			l, r := g.E(tBool, d-1), g.E(tBool, d-1)
			if strings.Contains(l.s, "trace(") || strings.Contains(r.s, "trace(") {
				g.tag("shortcircuit-effect")
			}
			return ex{s: g.par(l, p) + " " + op + " " + g.par(r, p+1), p: p}
		case c < 18:
			return g.condE(tBool, d)
		case c < 19:
			if e, ok := g.callUser(tBool, d); ok {
				return e
			}
		default:
			if g.frag {
				continue
			}
			switch g.r.Intn(3) {
			case 0:
				return ex{s: "bool(" + g.anyE(d-1).s + ")", p: pPrim}
			case 1:
				return ex{s: "type(" + g.anyE(d-1).s + `) == "` + hx.Pick(g.r, []string{"int", "string", "list", "tuple", "bool"}) + `"`, p: pCmp}
			default:
				g.tag("dict")
				dd := g.E(tDict, d-1)
				return ex{s: fmt.Sprintf(`"k%d" in %s`, g.r.Intn(4), g.par(dd, pCmp+1)), p: pCmp}
			}
		}
	}
	return ex{s: "True", p: pPrim}
}

// cond generates an expression used for its truth value.
func (g *gen) cond(d int) ex {
	if g.chance(72) {
		return g.E(tBool, d)
	}
	return g.E(hx.Pick(g.r, []typ{tInt, tInt, tList, tStr, tTuple}), d)
}

func (g *gen) plusE(t typ, d int) ex {
	l := g.E(t, d-1)
	var r ex
	if g.frag {
		r = g.nonLit(t, d-1)
	} else {
		r = g.E(t, d-1)
		if l.lit && r.lit {
			g.tag("plus-chain-literals")
		}
	}
	if l.lit && !r.lit {
		g.tag("const-left-noncomm")
	}
	return ex{s: g.par(l, pAdd) + " + " + g.par(r, pAdd+1), p: pAdd, n: l.n + r.n, grp: -1}
}

func (g *gen) strRaw(d int) ex {
	if d <= 0 || g.chance(35) {
		if g.chance(50) {
			if v := g.varOf(tStr); v != nil {
				return ex{s: v.name, p: pPrim, n: v.minlen}
			}
		}
		return g.strLit()
	}
	for try := 0; try < 6; try++ {
		c := g.r.Intn(14)
		switch {
		case c < 6:
			return g.plusE(tStr, d)
		case c < 8:
			return g.condE(tStr, d)
		case c < 9:
			if e, ok := g.callUser(tStr, d); ok {
				return e
			}
		case c < 10:
			s := g.strLit()
			if s.n > 0 {
				return ex{s: s.s + "[" + g.indexOf(s.n).s + "]", p: pPrim, n: 1}
			}
		default:
			if g.frag {
				continue
			}
			switch g.r.Intn(5) {
			case 0:
				return ex{s: "str(" + g.anyE(d-1).s + ")", p: pPrim}
			case 1:
				return ex{s: "type(" + g.anyE(d-1).s + ")", p: pPrim}
			case 2:
				return g.sliceOf(g.E(tStr, d-1), d-1)
			case 3:
				g.tag("dot")
				x := g.E(tStr, d-1)
				return ex{s: g.par(x, pPrim) + "." + hx.Pick(g.r, []string{"upper", "lower", "title", "strip"}) + "()", p: pPrim}
			default:
				x := g.E(tStr, d-1)
				return ex{s: g.par(x, pMul) + " * " + fmt.Sprint(g.r.Intn(3)), p: pMul}
			}
		}
	}
	return g.strLit()
}

func (g *gen) listDisplay(d int, min int) ex {
	n := min + g.r.Intn(4)
	if n > 4 {
		n = 4
	}
	parts := make([]string, n)
	for i := range parts {
		parts[i] = g.E(tInt, d-1).s
	}
	return ex{s: "[" + strings.Join(parts, ", ") + "]", p: pPrim, lit: true, n: n, grp: -1}
}

func (g *gen) tupleDisplay(d int, min int) ex {
	n := min + g.r.Intn(4)
	if n > 4 {
		n = 4
	}
	parts := make([]string, n)
	for i := range parts {
		parts[i] = g.E(tInt, d-1).s
	}
	s := "(" + strings.Join(parts, ", ") + ")"
	if n == 1 {
		s = "(" + parts[0] + ",)"
	}
	return ex{s: s, p: pPrim, lit: true, n: n}
}

func (g *gen) listRaw(d int) ex {
	if d <= 0 || g.chance(40) {
		if g.chance(50) {
			if v := g.varOf(tList); v != nil {
				return ex{s: v.name, p: pPrim, n: v.minlen, grp: v.group}
			}
		}
		return g.listDisplay(d, 0)
	}
	for try := 0; try < 6; try++ {
		c := g.r.Intn(14)
		switch {
		case c < 5:
			return g.plusE(tList, d)
		case c < 7:
			e := g.condE(tList, d)
			return e
		case c < 8:
			if e, ok := g.callUser(tList, d); ok {
				return e
			}
		case c < 9:
			return g.listDisplay(d, 0)
		default:
			if g.frag {
				continue
			}
			switch g.r.Intn(7) {
			case 0, 1:
				return g.listComp(d)
			case 2:
				return ex{s: fmt.Sprintf("list(range(%d))", g.r.Intn(5)), p: pPrim, grp: -1}
			case 3:
				return ex{s: "list(" + g.E(tTuple, d-1).s + ")", p: pPrim, grp: -1}
			case 4:
				return g.sliceOf(g.E(tList, d-1), d-1)
			case 5:
				g.tag("dict")
				g.tag("dot")
				dd := g.E(tDict, d-1)
				return ex{s: g.par(dd, pPrim) + ".values()", p: pPrim, grp: -1}
			default:
				return ex{s: "sorted(" + g.E(tList, d-1).s + ")", p: pPrim, grp: -1}
			}
		}
	}
	return g.listDisplay(d, 0)
}

// iterable returns an iterable of ints and, if it is a plain list/dict variable, that variable.
func (g *gen) iterable(d int) (ex, *vinfo) {
	c := g.r.Intn(10)
	switch {
	case c < 3:
		if v := g.varOf(tList); v != nil {
			return ex{s: v.name, p: pPrim}, v
		}
		fallthrough
	case c < 5:
		switch g.r.Intn(3) {
		case 0:
			return ex{s: fmt.Sprintf("range(%d)", 1+g.r.Intn(4)), p: pPrim}, nil
		case 1:
			a := g.r.Intn(3)
			return ex{s: fmt.Sprintf("range(%d, %d)", a, a+1+g.r.Intn(3)), p: pPrim}, nil
		default:
			if g.chance(50) {
				return ex{s: fmt.Sprintf("range(%d, 0, -1)", 1+g.r.Intn(4)), p: pPrim}, nil
			}
			return ex{s: fmt.Sprintf("range(0, %d, 2)", 2+g.r.Intn(5)), p: pPrim}, nil
		}
	case c < 7:
		return g.wrapTrace(g.listDisplay(d, 1)), nil
	case c < 9:
		if v := g.varOf(tTuple); v != nil && g.chance(50) {
			return ex{s: v.name, p: pPrim}, nil
		}
		return g.tupleDisplay(d, 1), nil
	default:
		e := g.E(tList, d)
		if e.grp == -1 {
			return e, nil
		}
		// unknown aliasing: treat as a variable of unknown group
		return e, &vinfo{group: 0}
	}
}

func (g *gen) listComp(d int) ex {
	g.tag("comprehension")
	mark := len(g.vars)
	it, _ := g.iterable(d - 1)
	v := g.freshL()
	g.vars = append(g.vars, vinfo{name: v, t: tInt, lvl: -1})
	s := " for " + v + " in " + g.par(it, pOr)
	if g.chance(40) {
		s += " if " + g.par(g.cond(d-1), pOr)
	}
	if g.chance(25) {
		w := g.freshL()
		it2 := ex{s: fmt.Sprintf("range(%d)", 1+g.r.Intn(3)), p: pPrim}
		if g.chance(50) {
			it2 = ex{s: "range(" + v + " % 3)", p: pPrim}
		}
		g.vars = append(g.vars, vinfo{name: w, t: tInt, lvl: -1})
		s += " for " + w + " in " + it2.s
		if g.chance(40) {
			s += " if " + g.par(g.cond(d-1), pOr)
		}
	}
	body := g.E(tInt, d-1)
	g.vars = g.vars[:mark]
	return ex{s: "[" + body.s + s + "]", p: pPrim, grp: -1}
}

func (g *gen) tupleRaw(d int) ex {
	if d <= 0 || g.chance(45) {
		if g.chance(50) {
			if v := g.varOf(tTuple); v != nil {
				return ex{s: v.name, p: pPrim, n: v.minlen}
			}
		}
		return g.tupleDisplay(d, 0)
	}
	for try := 0; try < 6; try++ {
		c := g.r.Intn(10)
		switch {
		case c < 4:
			return g.plusE(tTuple, d)
		case c < 6:
			return g.condE(tTuple, d)
		case c < 7:
			return g.tupleDisplay(d, 0)
		default:
			if g.frag {
				continue
			}
			if g.chance(50) {
				return ex{s: "tuple(" + g.E(tList, d-1).s + ")", p: pPrim}
			}
			return g.sliceOf(g.E(tTuple, d-1), d-1)
		}
	}
	return g.tupleDisplay(d, 0)
}

func (g *gen) dictRaw(d int) ex {
	g.tag("dict")
	if d <= 0 || g.chance(40) {
		if v := g.varOf(tDict); v != nil && g.chance(70) {
			return ex{s: v.name, p: pPrim, n: v.minlen, grp: v.group}
		}
	}
	if d > 0 && g.chance(20) {
		g.tag("dictcomp")
		mark := len(g.vars)
		v := g.freshL()
		n := 1 + g.r.Intn(3)
		g.vars = append(g.vars, vinfo{name: v, t: tInt, lvl: -1})
		val := g.E(tInt, d-1)
		s := fmt.Sprintf(`{"k" + str(%s): %s for %s in range(%d)`, v, val.s, v, n)
		if g.chance(30) {
			s += " if " + g.par(g.cond(d-1), pOr)
			n = 0
		}
		g.vars = g.vars[:mark]
		return ex{s: s + "}", p: pPrim, n: n, grp: -1}
	}
	n := g.r.Intn(4)
	parts := make([]string, n)
	for i := range parts {
		k := fmt.Sprintf(`"k%d"`, i)
		if g.chance(15) {
			k = "trace(" + k + ")"
		}
		parts[i] = k + ": " + g.E(tInt, d-1).s
	}
	return ex{s: "{" + strings.Join(parts, ", ") + "}", p: pPrim, n: n, grp: -1}
}

// ------------------------------------------------------------ statements

func (g *gen) bind(name string, t typ, e ex) {
	grp := 0
	if t == tList || t == tDict {
		if e.grp == -1 {
			grp = g.newGroup()
		} else {
			grp = e.grp
		}
	}
	g.vars = append(g.vars, vinfo{name: name, t: t, minlen: e.n, group: grp, lvl: g.lvl})
}

func (g *gen) valueTypes() []typ {
	ts := []typ{tInt, tInt, tInt, tStr, tList, tList, tTuple, tBool}
	if !g.frag {
		ts = append(ts, tDict)
	}
	return ts
}

func (g *gen) controlOK() bool { return g.lvl > 0 || g.o.Toplevel }

// block generates n statements in a nested block; returns after restoring visibility.
func (g *gen) block(n int, d int, pre func()) { g.blockPP(n, d, pre, nil) }

// blockPP is block with an additional hook run after the block's statements.
func (g *gen) blockPP(n int, d int, pre func(), post func()) {
	mark := len(g.vars)
	g.ind++
	g.ctl++
	if pre != nil {
		pre()
	}
	start := g.sb.Len()
	for i := 0; i < n; i++ {
		if g.stmt(d) {
			break
		}
	}
	if post != nil {
		post()
	}
	if g.sb.Len() == start && pre == nil {
		g.line("pass")
	}
	g.ctl--
	g.ind--
	g.vars = g.vars[:mark]
}

// stmt emits one statement; it reports whether control cannot continue
// past it (break/continue/return), so the rest of the block is skipped.
func (g *gen) stmt(d int) bool {
	g.nstmt++
	g.addCost(g.mult())
	if g.errKind != errNone {
		if g.errCount == 0 {
			g.injectError()
			return false
		}
		g.errCount--
	}
	ed := 2
	if g.chance(30) {
		ed = 3
	}
	if g.controlOK() && d >= 2 && g.loops == 0 && g.chance(9) {
		g.nestedLoopStmt(d)
		return false
	}
	for try := 0; try < 8; try++ {
		c := g.r.Intn(100)
		switch {
		case c < 20: // trace statement
			n := 1 + g.r.Intn(2)
			parts := make([]string, n)
			for i := range parts {
				parts[i] = g.anyE(ed).s
			}
			if !g.frag && g.chance(20) {
				g.tag("call-named")
				parts = append(parts, "k="+g.anyE(1).s)
			}
			g.raw("trace(" + strings.Join(parts, ", ") + ")")
			return false
		case c < 40: // new variable
			t := hx.Pick(g.r, g.valueTypes())
			e := g.E(t, ed)
			name := g.freshVar()
			g.line("%s = %s", name, e.s)
			g.bind(name, t, e)
			return false
		case c < 47: // reassign a variable owned by this function
			if g.lvl == 0 {
				continue
			}
			v := g.pickVar(func(v *vinfo) bool { return v.lvl == g.lvl && v.t != tDict })
			if v == nil {
				continue
			}
			if (v.t == tList) && g.iterating() {
				continue
			}
			e := g.E(v.t, ed)
			g.line("%s = %s", v.name, e.s)
			if e.n < v.minlen {
				v.minlen = e.n
			}
			if v.t == tList {
				if e.grp == -1 && g.ctl == 0 {
					v.group = g.newGroup()
				} else {
					v.group = 0
				}
			}
			return false
		case c < 57: // augmented assignment
			if g.augAssign(ed) {
				return false
			}
		case c < 62: // element assignment
			v := g.pickVar(func(v *vinfo) bool { return v.t == tList && v.minlen > 0 })
			if v == nil || !g.canMutate(v) {
				continue
			}
			g.noteMutation(v)
			g.line("%s[%s] = %s", v.name, g.indexOf(v.minlen).s, g.E(tInt, ed).s)
			return false
		case c < 72: // if
			if !g.controlOK() || d <= 0 {
				continue
			}
			g.ifStmt(d)
			return false
		case c < 80: // for
			if !g.controlOK() || d <= 0 || g.loops >= 3 {
				continue
			}
			g.forStmt(d)
			return false
		case c < 84: // while
			if !g.controlOK() || d <= 0 || g.loops >= 2 || !g.o.While {
				continue
			}
			g.whileStmt(d)
			return false
		case c < 88: // call statement
			ts := []typ{tInt, tStr, tList, tBool, tNone}
			if e, ok := g.callUser(hx.Pick(g.r, ts), ed); ok {
				g.raw(e.s)
				return false
			}
		case c < 89:
			g.line("pass")
			return false
		case c < 92: // break / continue directly
			if g.loops == 0 || g.ctl == 0 {
				continue
			}
			if g.chance(50) {
				g.tag("break")
				g.line("break")
			} else {
				g.tag("continue")
				g.line("continue")
			}
			return true
		case c < 94: // return
			if g.lvl == 0 || g.ctl == 0 {
				continue
			}
			g.returnStmt(ed)
			return true
		default:
			if g.frag {
				continue
			}
			if g.extraStmt(d, ed) {
				return false
			}
		}
	}
	g.line("trace(%s)", g.anyE(1).s)
	return false
}

func (g *gen) returnStmt(ed int) {
	if g.loops > 0 {
		g.tag("return-in-loop")
	}
	if g.ret == tNone {
		if g.chance(50) {
			g.line("return")
		} else {
			g.line("return None")
		}
		return
	}
	g.line("return %s", g.E(g.ret, ed).s)
}

func (g *gen) augAssign(ed int) bool {
	c := g.r.Intn(10)
	if c < 6 && g.lvl > 0 {
		v := g.pickVar(func(v *vinfo) bool {
			return v.lvl == g.lvl && (v.t == tInt || v.t == tStr || v.t == tList || v.t == tTuple)
		})
		if v == nil {
			return false
		}
		switch v.t {
		case tInt:
			ops := []string{"+=", "-=", "*=", "+=", "-="}
			if !g.frag {
				ops = append(ops, "//=", "%=", "&=", "|=", "^=", "<<=", ">>=")
			}
			op := hx.Pick(g.r, ops)
			var rhs string
			switch op {
			case "*=":
				rhs = hx.Pick(g.r, []string{"2", "3", "-1", "trace(2)"})
			case "//=", "%=":
				rhs = fmt.Sprint(1 + g.r.Intn(5))
			case "<<=", ">>=":
				rhs = fmt.Sprint(g.r.Intn(4))
			default:
				rhs = g.E(tInt, ed).s
			}
			g.line("%s %s %s", v.name, op, rhs)
		case tStr, tTuple:
			g.line("%s += %s", v.name, g.E(v.t, ed).s)
		case tList:
			if !g.canMutate(v) {
				return false
			}
			g.noteMutation(v)
			g.line("%s += %s", v.name, g.E(tList, ed).s)
		}
		return true
	}
	// index target
	v := g.pickVar(func(v *vinfo) bool { return v.t == tList && v.minlen > 0 })
	if v == nil || !g.canMutate(v) {
		return false
	}
	g.noteMutation(v)
	g.tag("augassign-index")
	idx := g.indexOf(v.minlen)
	if strings.Contains(idx.s, "trace(") {
		g.tag("augassign-index-effect")
	}
	ops := []string{"+=", "-=", "*=", "+="}
	if !g.frag {
		ops = append(ops, "|=", "//=", "%=")
	}
	op := hx.Pick(g.r, ops)
	rhs := g.E(tInt, ed).s
	if op == "//=" || op == "%=" {
		rhs = fmt.Sprint(1 + g.r.Intn(5))
	}
	if op == "*=" {
		rhs = hx.Pick(g.r, []string{"2", "3", "-1", "trace(2)"})
	}
	g.line("%s[%s] %s %s", v.name, idx.s, op, rhs)
	return true
}

func (g *gen) ifStmt(d int) {
	if g.lvl == 0 {
		g.tag("toplevel-control")
	}
	g.line("if %s:", g.cond(2).s)
	g.block(1+g.r.Intn(2), d-1, nil)
	for g.chance(20) {
		g.line("elif %s:", g.cond(2).s)
		g.block(1+g.r.Intn(2), d-1, nil)
	}
	if g.chance(45) {
		g.line("else:")
		g.block(1+g.r.Intn(2), d-1, nil)
	}
}

func (g *gen) forStmt(d int) {
	if g.lvl == 0 {
		g.tag("toplevel-control")
	}
	if g.loops > 0 {
		g.tag("nested-loop")
	}
	it, iv := g.iterable(2)
	v := g.freshVar()
	g.line("for %s in %s:", v, it.s)
	pushed := 0
	if iv != nil {
		if iv.group == 0 {
			g.iterAny++
			pushed = 2
		} else {
			g.iter = append(g.iter, iv.group)
			pushed = 1
		}
	}
	nest, force := g.nest, g.forceExit
	g.nest, g.forceExit = false, false
	g.loops++
	nb := 1 + g.r.Intn(2)
	if nest {
		nb = g.r.Intn(2)
	}
	g.blockPP(nb, d-1, func() {
		g.vars = append(g.vars, vinfo{name: v, t: tInt, lvl: g.lvl})
		if !nest && (force || g.chance(35)) {
			g.loopExit(d)
		}
	}, g.nestPost(nest, d))
	g.loops--
	switch pushed {
	case 1:
		g.iter = g.iter[:len(g.iter)-1]
	case 2:
		g.iterAny--
	}
}

// loopExit emits `if cond: break|continue|return ...`, possibly nested in another if.
func (g *gen) loopExit(d int) {
	g.line("if %s:", g.cond(2).s)
	g.ind++
	nested := g.chance(25)
	if nested {
		g.line("if %s:", g.cond(1).s)
		g.ind++
	}
	if g.chance(40) {
		g.line("trace(%s)", g.anyE(1).s)
	}
	c := g.r.Intn(10)
	switch {
	case c < 4:
		g.tag("break")
		g.line("break")
	case c < 8 || g.lvl == 0:
		g.tag("continue")
		g.line("continue")
	default:
		g.returnStmt(2)
	}
	if nested {
		g.ind--
	}
	g.ind--
}

func (g *gen) whileStmt(d int) {
	g.tag("while")
	if g.loops > 0 {
		g.tag("nested-loop")
	}
	n := 2 + g.r.Intn(3)
	nest, force := g.nest, g.forceExit
	g.nest, g.forceExit = false, false
	if g.lvl == 0 {
		g.tag("toplevel-control")
		c := g.freshG()
		g.line("%s = [%d]", c, n)
		g.tag("augassign-index")
		g.line("while %s[0] > 0:", c)
		g.loops++
		nb := 1 + g.r.Intn(2)
		if nest {
			nb = g.r.Intn(2)
		}
		g.blockPP(nb, d-1, func() {
			g.line("%s[0] -= 1", c)
			if !nest && (force || g.chance(30)) {
				g.loopExit(d)
			}
		}, g.nestPost(nest, d))
		g.loops--
		return
	}
	c := g.freshL()
	g.line("%s = %d", c, n)
	cond := c + " > 0"
	if g.chance(30) {
		cond = "trace(" + c + ") > 0"
	} else if g.chance(20) {
		cond = c
	}
	g.line("while %s:", cond)
	g.loops++
	nb := 1 + g.r.Intn(2)
	if nest {
		nb = g.r.Intn(2)
	}
	g.blockPP(nb, d-1, func() {
		if g.chance(60) {
			g.line("%s -= 1", c)
		} else {
			g.line("%s = %s - 1", c, c)
		}
		if !nest && (force || g.chance(30)) {
			g.loopExit(d)
		}
	}, g.nestPost(nest, d))
	g.loops--
}

// nestedLoopStmt emits a loop whose body contains an inner loop (all four
// for/while combinations when the dialect has while) FOLLOWED, in the outer
// body, by more statements and a break / continue / return under if / else:
// the exits after the inner loop must refer to the outer loop.
func (g *gen) nestedLoopStmt(d int) {
	g.tag("nested-loop")
	g.tag("exit-after-inner-loop")
	g.nest = true
	if g.o.While && g.chance(50) {
		g.whileStmt(d)
	} else {
		g.forStmt(d)
	}
}

// nestPost returns the hook that closes the body of an outer loop made by nestedLoopStmt.
func (g *gen) nestPost(nest bool, d int) func() {
	if !nest {
		return nil
	}
	return func() {
		// the inner loop, itself with a break / continue more often than not
		g.forceExit = g.chance(60)
		if g.o.While && g.chance(50) {
			g.whileStmt(d - 1)
		} else {
			g.forStmt(d - 1)
		}
		g.forceExit = false
		if g.chance(60) {
			g.line("trace(%s)", g.anyE(1).s)
		}
		g.exitAfter()
		if g.chance(60) {
			g.line("trace(%s)", g.anyE(1).s)
		}
	}
}

// exitAfter emits break / continue / return in the branches of an if / else.
func (g *gen) exitAfter() {
	exit := func() {
		c := g.r.Intn(10)
		switch {
		case c < 4:
			g.tag("break")
			g.line("break")
		case c < 8 || g.lvl == 0:
			g.tag("continue")
			g.line("continue")
		default:
			g.returnStmt(2)
		}
	}
	g.line("if %s:", g.cond(2).s)
	g.ind++
	if g.chance(40) {
		g.line("trace(%s)", g.anyE(1).s)
	}
	if g.chance(75) {
		exit()
	} else {
		g.line("pass")
	}
	g.ind--
	if g.chance(50) {
		g.line("else:")
		g.ind++
		if g.chance(50) {
			g.line("trace(%s)", g.anyE(1).s)
		}
		if g.chance(60) {
			exit()
		} else {
			g.line("pass")
		}
		g.ind--
	}
}

// extraStmt: non-fragment statement forms.
func (g *gen) extraStmt(d, ed int) bool {
	switch g.r.Intn(9) {
	case 8: // real division (floats appear only in traces)
		if g.lvl > 0 && g.chance(50) {
			y := g.freshL()
			g.line("%s = %s", y, g.E(tInt, ed).s)
			g.line("%s /= %d", y, 1+g.r.Intn(4))
			g.line("trace(%s)", y)
		} else {
			g.line("trace(%s / %d)", g.par(g.E(tInt, ed), pMul), 1+g.r.Intn(8))
		}
		return true
	case 0: // append / extend / pop
		v := g.varOf(tList)
		if v == nil || !g.canMutate(v) {
			return false
		}
		g.noteMutation(v)
		g.tag("dot")
		switch g.r.Intn(4) {
		case 0, 1:
			g.line("%s.append(%s)", v.name, g.E(tInt, ed).s)
		case 2:
			g.line("%s.extend(%s)", v.name, g.E(tList, ed).s)
		default:
			if v.lvl == g.lvl && v.group != 0 && g.loops == 0 && v.minlen > 0 && g.lvl == 0 {
				v.minlen--
				g.line("trace(%s.pop())", v.name)
			} else if !g.controlOK() {
				g.line("%s.append(%s)", v.name, g.E(tInt, ed).s)
			} else {
				g.line("if len(%s) > %d:", v.name, v.minlen)
				g.ind++
				g.line("trace(%s.pop())", v.name)
				g.ind--
			}
		}
		return true
	case 1: // unpacking assignment
		g.tag("unpack")
		a, b := g.freshVar(), g.freshVar()
		e1, e2 := g.E(tInt, ed), g.E(tStr, ed)
		switch g.r.Intn(4) {
		case 0:
			g.line("%s, %s = %s, %s", a, b, e1.s, e2.s)
		case 1:
			g.line("[%s, %s] = [%s, %s]", a, b, e1.s, e2.s)
		case 2:
			g.line("(%s, %s) = trace((%s, %s))", a, b, e1.s, e2.s)
		default:
			c := g.freshVar()
			e3 := g.E(tInt, ed)
			g.line("%s, (%s, %s) = %s, [%s, %s]", a, b, c, e1.s, e2.s, e3.s)
			g.vars = append(g.vars, vinfo{name: a, t: tInt, lvl: g.lvl}, vinfo{name: b, t: tStr, lvl: g.lvl}, vinfo{name: c, t: tInt, lvl: g.lvl})
			return true
		}
		g.vars = append(g.vars, vinfo{name: a, t: tInt, lvl: g.lvl}, vinfo{name: b, t: tStr, lvl: g.lvl})
		return true
	case 2: // dict element assignment
		v := g.varOf(tDict)
		if v == nil || !g.canMutate(v) {
			return false
		}
		g.noteMutation(v)
		g.tag("dict")
		k := fmt.Sprintf(`"k%d"`, g.r.Intn(v.minlen+1))
		if g.chance(30) {
			k = "trace(" + k + ")"
		}
		if v.minlen > 0 && g.chance(40) {
			g.tag("augassign-index")
			if strings.Contains(k, "trace(") {
				g.tag("augassign-index-effect")
			}
			k = fmt.Sprintf(`"k%d"`, g.r.Intn(v.minlen))
			g.line("%s[%s] += %s", v.name, k, g.E(tInt, ed).s)
		} else {
			g.line("%s[%s] = %s", v.name, k, g.E(tInt, ed).s)
		}
		return true
	case 3: // for over dict items with unpacking
		if !g.controlOK() || d <= 0 || g.loops >= 2 {
			return false
		}
		g.tag("dict")
		g.tag("dot")
		g.tag("unpack")
		if g.lvl == 0 {
			g.tag("toplevel-control")
		}
		if g.loops > 0 {
			g.tag("nested-loop")
		}
		dd := g.E(tDict, 1)
		k, v := g.freshVar(), g.freshVar()
		g.line("for %s, %s in %s.items():", k, v, g.par(dd, pPrim))
		g.loops++
		g.block(1+g.r.Intn(2), d-1, func() {
			g.vars = append(g.vars, vinfo{name: k, t: tStr, lvl: g.lvl}, vinfo{name: v, t: tInt, lvl: g.lvl})
		})
		g.loops--
		return true
	case 4: // nested def closing over visible variables
		if g.lvl == 0 || g.lvl >= 2 || d <= 0 || g.loops > 0 {
			return false
		}
		g.tag("closure")
		g.nestedDef(d)
		return true
	case 5: // lambda bound to a variable and called
		g.tag("lambda")
		name := g.freshVar()
		q := g.freshL()
		mark := len(g.vars)
		g.vars = append(g.vars, vinfo{name: q, t: tInt, lvl: g.lvl + 1})
		g.lvl++
		body := g.E(tInt, ed)
		g.lvl--
		g.vars = g.vars[:mark]
		g.line("%s = lambda %s: %s", name, q, body.s)
		g.line("trace(%s(%s))", name, g.E(tInt, 1).s)
		return true
	case 6: // for with tuple targets over a display of pairs
		if !g.controlOK() || d <= 0 || g.loops >= 2 {
			return false
		}
		g.tag("unpack")
		if g.lvl == 0 {
			g.tag("toplevel-control")
		}
		if g.loops > 0 {
			g.tag("nested-loop")
		}
		a, b := g.freshVar(), g.freshVar()
		n := 1 + g.r.Intn(3)
		pairs := make([]string, n)
		for i := range pairs {
			pairs[i] = "(" + g.E(tInt, 1).s + ", " + g.E(tInt, 1).s + ")"
		}
		tgt := a + ", " + b
		if g.chance(30) {
			tgt = "(" + tgt + ")"
		} else if g.chance(20) {
			tgt = "[" + tgt + "]"
		}
		g.line("for %s in [%s]:", tgt, strings.Join(pairs, ", "))
		g.loops++
		g.block(1+g.r.Intn(2), d-1, func() {
			g.vars = append(g.vars, vinfo{name: a, t: tInt, lvl: g.lvl}, vinfo{name: b, t: tInt, lvl: g.lvl})
		})
		g.loops--
		return true
	default: // method call as a statement with traced result
		g.tag("dict")
		g.tag("dot")
		dd := g.E(tDict, 1)
		g.line("trace(%s.%s())", g.par(dd, pPrim), hx.Pick(g.r, []string{"keys", "values", "items"}))
		return true
	}
}

// nestedDef emits a nested function that reads (and possibly mutates) the
// variables of the enclosing function, then calls it.
func (g *gen) nestedDef(d int) {
	name := g.freshL()
	p := g.freshL()
	g.line("def %s(%s):", name, p)
	saveRet, saveLoops, saveCtl, saveIter, saveAny := g.ret, g.loops, g.ctl, g.iter, g.iterAny
	g.ret, g.loops, g.ctl, g.iter, g.iterAny = tInt, 0, 0, nil, 0
	g.lvl++
	mark := len(g.vars)
	g.ind++
	g.vars = append(g.vars, vinfo{name: p, t: tInt, lvl: g.lvl})
	n := 1 + g.r.Intn(3)
	for i := 0; i < n; i++ {
		if g.stmt(d - 1) {
			break
		}
	}
	g.line("return %s", g.E(tInt, 2).s)
	g.ind--
	g.vars = g.vars[:mark]
	g.lvl--
	g.ret, g.loops, g.ctl, g.iter, g.iterAny = saveRet, saveLoops, saveCtl, saveIter, saveAny
	if g.cur != nil {
		g.cur.mutates = true // conservative
	}
	g.line("trace(%s(%s))", name, g.E(tInt, 1).s)
	if g.chance(40) {
		// reassign a captured int after the def, then call again
		if v := g.pickVar(func(v *vinfo) bool { return v.lvl == g.lvl && v.t == tInt }); v != nil {
			g.tag("closure-reassign")
			g.line("%s = %s", v.name, g.E(tInt, 1).s)
			g.line("trace(%s(%s))", name, g.E(tInt, 1).s)
		}
	}
}

// defFunc emits a module-level function generated from the grammar and
// registers it.
func (g *gen) defFunc() {
	name := g.freshF()
	np := g.r.Intn(4)
	pts := make([]typ, np)
	pn := make([]string, np)
	for i := range pts {
		pts[i] = hx.Pick(g.r, []typ{tInt, tInt, tStr, tList, tBool, tTuple})
		pn[i] = g.freshL()
	}
	ret := hx.Pick(g.r, []typ{tInt, tInt, tInt, tStr, tList, tBool, tNone})
	fi := fninfo{name: name, params: pts, ret: ret}
	g.line("def %s(%s):", name, strings.Join(pn, ", "))
	mark := len(g.vars)
	g.lvl, g.ret, g.cur, g.cost = 1, ret, &fi, 0
	g.loops, g.ctl, g.iter, g.iterAny = 0, 0, nil, 0
	g.ind++
	for i := range pts {
		g.vars = append(g.vars, vinfo{name: pn[i], t: pts[i], lvl: 1})
	}
	n := 1 + g.r.Intn(4)
	for i := 0; i < n; i++ {
		if g.stmt(3) {
			break
		}
	}
	if ret == tNone {
		if g.chance(30) {
			g.line("return")
		} else if g.chance(20) {
			g.line("return None")
		} else if g.sb.Len() == 0 {
			g.line("pass")
		}
	} else {
		g.line("return %s", g.E(ret, 2).s)
	}
	g.ind--
	g.vars = g.vars[:mark]
	fi.cost = g.cost + 2
	g.lvl, g.cur, g.cost = 0, nil, 0
	g.funcs = append(g.funcs, fi)
	g.addCand(fi.name, fi.params)
}

// recFunc emits a recursive module-level function (in the fragment).
// addCand records a function that can be entered from Go with scalar arguments.
func (g *gen) addCand(name string, params []typ) {
	c := Call{Fn: name, Args: []CallArg{}}
	for _, t := range params {
		switch t {
		case tInt:
			c.Args = append(c.Args, CallArg{T: "int", V: fmt.Sprint(g.r.Intn(5))})
		case tStr:
			c.Args = append(c.Args, CallArg{T: "str", V: hx.Pick(g.r, strPool)})
		case tBool:
			c.Args = append(c.Args, CallArg{T: "bool", V: fmt.Sprint(g.chance(50))})
		case tNone:
			c.Args = append(c.Args, CallArg{T: "none"})
		default:
			return // container arguments are not passed from the host
		}
	}
	g.cands = append(g.cands, c)
}

func (g *gen) recFunc() {
	g.tag("recursion")
	name := g.freshF()
	defer func() { g.addCand(name, []typ{tInt, tInt}) }()
	n, acc := g.freshL(), g.freshL()
	g.line("def %s(%s, %s):", name, n, acc)
	g.ind++
	g.line("trace(%s, %s)", n, acc)
	g.line("if %s <= 0:", n)
	g.ind++
	g.line("return %s", acc)
	g.ind--
	switch g.r.Intn(3) {
	case 0:
		g.line("return %s(%s - 1, %s + %s)", name, n, acc, n)
	case 1:
		g.line("return %s(%s - 1, %s * 2) + trace(%s)", name, n, acc, n)
	default:
		g.line("%s = %s(%s - 1, %s + 1)", acc, name, n, acc)
		g.line("return %s - %s", acc, n)
	}
	g.ind--
	depth := 1 + g.r.Intn(4)
	if !g.o.Recursion && g.chance(70) {
		depth = 0 // no re-entry at module level: the host enters the function later (see cands)
	}
	v := g.freshG()
	g.line("%s = %s(%d, %d)", v, name, depth, g.r.Intn(5))
	g.vars = append(g.vars, vinfo{name: v, t: tInt})
	g.topCost += depth * 6
}

// callFunc emits a top-level use of the most recent function.
func (g *gen) callFunc(f *fninfo) {
	args := make([]string, len(f.params))
	for i, pt := range f.params {
		args[i] = g.E(pt, 2).s
	}
	call := f.name + "(" + strings.Join(args, ", ") + ")"
	g.topCost += f.cost
	if f.ret == tNone || g.chance(35) {
		g.line("trace(%s)", call)
		return
	}
	v := g.freshG()
	g.line("%s = %s", v, call)
	g.vars = append(g.vars, vinfo{name: v, t: f.ret})
}

// ------------------------------------------------------------ error injection

func (g *gen) injectError() {
	kind := g.errKind
	g.errKind = errNone
	g.tag("err-injected")
	switch kind {
	case errIntStr:
		g.tag("err-int-plus-string")
		if g.chance(50) {
			g.line("trace(%s + %s)", g.par(g.E(tInt, 1), pAdd), g.par(g.nonLit(tStr, 1), pAdd+1))
		} else {
			g.line("trace(%s + %s)", g.par(g.E(tStr, 1), pAdd), g.par(g.E(tInt, 1), pAdd+1))
		}
	case errIndex:
		g.tag("err-index")
		if v := g.varOf(tList); v != nil && g.chance(60) {
			g.line("trace(%s[%d])", v.name, 50+g.r.Intn(10))
		} else {
			g.line("trace(%s[%d])", g.listDisplay(1, 1).s, 4+g.r.Intn(5))
		}
	case errUnbound:
		g.tag("use-before-def")
		g.tag("err-unbound")
		v := g.freshVar()
		g.line("trace(%s)", v)
		if g.ctl > 0 && g.lvl == 0 && !g.o.Toplevel {
			return // cannot happen
		}
		g.line("%s = %s", v, g.E(tInt, 1).s)
		g.vars = append(g.vars, vinfo{name: v, t: tInt, lvl: g.lvl})
	case errDivZero:
		g.tag("err-div-zero")
		op := hx.Pick(g.r, []string{"//", "%"})
		z := hx.Pick(g.r, []string{"0", "(1 - 1)", "trace(0)", "len([])"})
		g.line("trace(%s %s %s)", g.par(g.E(tInt, 1), pMul), op, z)
	case errArity:
		g.tag("err-arity")
		if len(g.funcs) > 0 {
			f := g.funcs[g.r.Intn(len(g.funcs))]
			n := len(f.params) + 1 + g.r.Intn(2)
			if len(f.params) > 0 && g.chance(40) {
				n = len(f.params) - 1
			}
			args := make([]string, n)
			for i := range args {
				args[i] = g.E(tInt, 1).s
			}
			g.line("trace(%s(%s))", f.name, strings.Join(args, ", "))
		} else {
			g.line("trace(len(%s, %s))", g.E(tList, 1).s, g.E(tInt, 1).s)
		}
	case errMutIter:
		g.tag("err-mutate-during-iteration")
		if !g.controlOK() {
			g.line("trace(%s[%d])", g.listDisplay(1, 1).s, 7)
			g.tag("err-index")
			return
		}
		if g.lvl == 0 {
			g.tag("toplevel-control")
		}
		l, v := g.freshVar(), g.freshVar()
		g.line("%s = [%d, %d, %d]", l, g.r.Intn(5), g.r.Intn(5), g.r.Intn(5))
		g.line("for %s in %s:", v, l)
		g.ind++
		g.line("trace(%s)", v)
		switch c := g.r.Intn(3); {
		case c == 0 && !g.frag:
			g.tag("dot")
			g.line("%s.append(%s)", l, v)
		case c == 1:
			g.line("%s[0] = %s", l, v)
		default:
			if g.lvl == 0 {
				g.tag("augassign-index")
				g.line("%s[1] += %s", l, v)
			} else {
				g.line("%s += [%s]", l, v)
			}
		}
		g.ind--
		g.vars = append(g.vars, vinfo{name: l, t: tList, minlen: 3, group: g.newGroup(), lvl: g.lvl})
	case errUnpack:
		g.tag("err-unpack")
		g.tag("unpack")
		a, b := g.freshVar(), g.freshVar()
		g.line("%s, %s = %s", a, b, hx.Pick(g.r, []string{"(1, 2, 3)", "[1]", "trace((4, 5, 6))", "()"}))
		g.vars = append(g.vars, vinfo{name: a, t: tInt, lvl: g.lvl}, vinfo{name: b, t: tInt, lvl: g.lvl})
	case errNotCallable:
		g.tag("err-not-callable")
		if v := g.pickVar(func(v *vinfo) bool { return v.t == tInt || v.t == tStr || v.t == tList }); v != nil {
			g.line("trace(%s(%s))", v.name, g.E(tInt, 1).s)
		} else {
			g.line("trace((%d)(%s))", g.r.Intn(9), g.E(tInt, 1).s)
		}
	}
}

// ------------------------------------------------------------ program

func generate(r *hx.Rand, id int, fragPct int) *Out {
	g := &gen{r: r, feats: map[string]bool{}, taken: map[string]bool{}}
	bits := r.Intn(16)
	g.o = Opts{Set: bits&1 != 0, While: bits&2 != 0, Recursion: bits&4 != 0, Toplevel: bits&8 != 0}
	if !g.o.While && r.Intn(100) < 40 {
		g.o.While = true // about 70% of the programs may use while; all 16 combinations still occur
	}
	g.frag = r.Intn(100) < fragPct
	claimFragment := g.frag

	if r.Intn(100) < 16 {
		n := errKinds - 1
		if g.frag {
			n = errMutIter // kinds 1..errMutIter are expressible in the fragment
		}
		g.errKind = 1 + r.Intn(n)
		g.errCount = r.Intn(9)
	}
	staticBad := 0
	if r.Intn(100) < 4 {
		staticBad = 1 + r.Intn(8)
	}
	badAt := r.Intn(3)

	items := 2 + r.Intn(4)
	for i := 0; i < items; i++ {
		if staticBad != 0 && i == badAt {
			g.injectStaticError(staticBad)
			staticBad = 0
			if g.frag {
				claimFragment = false
			}
		}
		c := r.Intn(100)
		switch {
		case c < 30:
			g.defFunc()
			f := &g.funcs[len(g.funcs)-1]
			g.callFunc(f)
			if g.chance(30) {
				g.callFunc(f)
			}
		case c < 36:
			if g.o.Recursion || g.chance(60) {
				g.recFunc()
			} else {
				g.stmt(3)
			}
		case c < 62 && !g.frag:
			g.scenario()
		default:
			k := 1 + r.Intn(3)
			for j := 0; j < k; j++ {
				g.stmt(3)
			}
		}
	}
	if g.errKind != errNone {
		g.injectError()
	}
	if staticBad != 0 {
		g.injectStaticError(staticBad)
		if g.frag {
			claimFragment = false
		}
	}
	// Make the final state visible.
	if g.chance(50) {
		if v := g.pickVar(func(v *vinfo) bool { return v.lvl == 0 }); v != nil {
			g.line("trace(%s)", v.name)
		}
	}

	// entries through the Go API after initialisation (starlark.Call on an idle thread)
	var calls []Call
	if len(g.cands) > 0 && g.chance(60) {
		g.tag("host-call")
		k := 1 + g.r.Intn(2)
		for i := 0; i < k; i++ {
			calls = append(calls, g.cands[g.r.Intn(len(g.cands))])
		}
	}
	feats := make([]string, 0, len(g.feats))
	for k := range g.feats {
		feats = append(feats, k)
	}
	sort.Strings(feats)
	return &Out{ID: id, Src: g.sb.String(), Opts: g.o, Features: feats, Fragment: claimFragment, Calls: calls}
}

// injectStaticError makes the program (usually) statically invalid.
func (g *gen) injectStaticError(kind int) {
	g.tag("static-bad")
	switch kind {
	case 1: // global bound twice
		v := g.pickVar(func(v *vinfo) bool { return v.lvl == 0 })
		if v == nil {
			x := g.freshG()
			g.line("%s = 1", x)
			g.line("%s = 2", x)
			return
		}
		g.line("%s = %s", v.name, g.E(v.t, 1).s)
	case 2:
		g.raw(hx.Pick(g.r, []string{"break", "continue"}))
	case 3:
		g.line("return %s", g.E(tInt, 1).s)
	case 4:
		g.line("trace(undefined_name_%d)", g.r.Intn(9))
	case 5: // control flow at top level (invalid unless opts.toplevel)
		g.tag("toplevel-control")
		g.line("if %s:", g.cond(1).s)
		g.ind++
		g.line("trace(%s)", g.anyE(1).s)
		g.ind--
	case 6: // while (invalid unless opts.while [and opts.toplevel])
		g.tag("while")
		f := g.freshF()
		c := g.freshL()
		g.line("def %s(%s):", f, c)
		g.ind++
		g.line("while %s > 0:", c)
		g.ind++
		g.line("%s -= 1", c)
		g.line("trace(%s)", c)
		g.ind--
		g.line("return %s", c)
		g.ind--
		g.line("trace(%s(%d))", f, 1+g.r.Intn(3))
	case 7: // parse errors
		g.raw(hx.Pick(g.r, []string{"x = = 1", "trace(1 < 2 < 3)", "def (): pass", "trace(1,, 2)", "y = 1 +"}))
	default: // augmented assignment to a global at top level is a rebinding
		v := g.pickVar(func(v *vinfo) bool { return v.lvl == 0 && v.t == tInt })
		if v == nil {
			x := g.freshG()
			g.line("%s = 1", x)
			g.line("%s += 2", x)
			return
		}
		g.line("%s += %s", v.name, g.E(tInt, 1).s)
	}
}
