// c11: runs the real comparison operators, Hash methods, dict/set membership
// and sorted/min/max on a pool of values and prints what was observed
// (one JSON object per line).  The algebraic laws of the property are also
// checked here directly on the observations (no model involved).
package main

import (
	"encoding/hex"
	"encoding/json"
	"flag"
	"fmt"
	"math"
	"math/big"
	"time"

	stime "go.starlark.net/lib/time"
	"go.starlark.net/starlark"
	"go.starlark.net/starlarkstruct"
	"go.starlark.net/syntax"

	"verifharness/internal/hx"
)

// D is the JSON descriptor of a value (mirrors coq/C11/Model.v value / atom).
type D struct {
	T     string  `json:"t"`
	B     bool    `json:"b,omitempty"`
	Z     string  `json:"z,omitempty"`
	Bits  string  `json:"bits,omitempty"`
	Hex   *string `json:"hex,omitempty"`
	ID    int     `json:"id,omitempty"`
	Recv  bool    `json:"recv,omitempty"`
	NS    string  `json:"ns,omitempty"`
	E     []D     `json:"e,omitempty"`
	Start string  `json:"start,omitempty"`
	Step  string  `json:"step,omitempty"`
	Len   string  `json:"len,omitempty"`
	Ctor  *D      `json:"ctor,omitempty"`
	F     [][2]D  `json:"f,omitempty"`  // struct fields: [name(str), value]
	KV    [][2]D  `json:"kv,omitempty"` // dict entries
}

type item struct {
	v     starlark.Value
	d     D
	cls   string // num str bytes bool tuple list other
	depth int
	hash  *uint32
	dj    string // canonical JSON of d
}

func hx2(s string) *string { h := hex.EncodeToString([]byte(s)); return &h }

var strs = map[string]bool{} // every string whose hash the model needs

func note(s string) string { strs[s] = true; return s }

func dInt(z *big.Int) D     { return D{T: "int", Z: z.String()} }
func dFloat(f float64) D    { return D{T: "float", Bits: fmt.Sprint(math.Float64bits(f))} }
func dStr(s string) D       { return D{T: "str", Hex: hx2(note(s))} }
func dBytes(s string) D     { return D{T: "bytes", Hex: hx2(note(s))} }
func maxd(ds []int) int {
	m := 0
	for _, x := range ds {
		if x > m {
			m = x
		}
	}
	return m
}

var nextID = 1

type mk struct {
	v starlark.Value
	d D
	depth int
}

func aNone() mk           { return mk{starlark.None, D{T: "none"}, 1} }
func aBool(b bool) mk     { return mk{starlark.Bool(b), D{T: "bool", B: b}, 1} }
func aInt(z *big.Int) mk  { return mk{starlark.MakeBigInt(z), dInt(z), 1} }
func aI(i int64) mk       { return aInt(big.NewInt(i)) }
func aFloat(f float64) mk { return mk{starlark.Float(f), dFloat(f), 1} }
func aStr(s string) mk    { return mk{starlark.String(s), dStr(s), 1} }
func aBytes(s string) mk  { return mk{starlark.Bytes(s), dBytes(s), 1} }
func aTime(ns int64, loc *time.Location) mk {
	return mk{stime.Time(time.Unix(0, ns).In(loc)), D{T: "time", NS: fmt.Sprint(ns)}, 1}
}
// aTimeAt: an instant given as seconds + nanoseconds (also outside the int64-nanosecond range)
func aTimeAt(sec int64, nsec int64, loc *time.Location) mk {
	ns := new(big.Int).Mul(big.NewInt(sec), big.NewInt(1000000000))
	ns.Add(ns, big.NewInt(nsec))
	return mk{stime.Time(time.Unix(sec, nsec).In(loc)), D{T: "time", NS: ns.String()}, 1}
}
func aDur(ns int64) mk { return mk{stime.Duration(ns), D{T: "dur", NS: fmt.Sprint(ns)}, 1} }
func aFunc(v starlark.Value, name string) mk {
	id := nextID
	nextID++
	return mk{v, D{T: "func", ID: id, Hex: hx2(note(name))}, 1}
}
func aBuiltin(v *starlark.Builtin) mk {
	id := nextID
	nextID++
	return mk{v, D{T: "builtin", ID: id, Hex: hx2(note(v.Name())), Recv: v.Receiver() != nil}, 1}
}
func tuple(es ...mk) mk {
	var vs starlark.Tuple
	var ds []D
	var dp []int
	for _, e := range es {
		vs = append(vs, e.v)
		ds = append(ds, e.d)
		dp = append(dp, e.depth)
	}
	if vs == nil {
		vs = starlark.Tuple{}
	}
	return mk{vs, D{T: "tuple", E: ds}, 1 + maxd(dp)}
}
func list(es ...mk) mk {
	var vs []starlark.Value
	var ds []D
	var dp []int
	for _, e := range es {
		vs = append(vs, e.v)
		ds = append(ds, e.d)
		dp = append(dp, e.depth)
	}
	return mk{starlark.NewList(vs), D{T: "list", E: ds}, 1 + maxd(dp)}
}
func rng(thread *starlark.Thread, start, stop, step int) mk {
	v, err := starlark.Call(thread, starlark.Universe["range"], starlark.Tuple{starlark.MakeInt(start), starlark.MakeInt(stop), starlark.MakeInt(step)}, nil)
	if err != nil {
		panic(err)
	}
	n := starlark.Len(v)
	return mk{v, D{T: "range", Start: fmt.Sprint(start), Step: fmt.Sprint(step), Len: fmt.Sprint(n)}, 1}
}
func strct(ctor mk, names []string, vals []mk) mk {
	sd := starlark.StringDict{}
	for i, n := range names {
		sd[n] = vals[i].v
	}
	s := starlarkstruct.FromStringDict(ctor.v, sd)
	var f [][2]D
	var dp []int
	for _, n := range s.AttrNames() { // sorted by name, as stored
		for i, m := range names {
			if m == n {
				f = append(f, [2]D{dStr(n), vals[i].d})
				dp = append(dp, vals[i].depth)
			}
		}
	}
	c := ctor.d
	return mk{s, D{T: "struct", Ctor: &c, F: f}, 1 + maxd(dp)}
}
func dict(kvs ...mk) mk { // k1, v1, k2, v2 ...
	d := starlark.NewDict(len(kvs) / 2)
	var e [][2]D
	var dp []int
	for i := 0; i+1 < len(kvs); i += 2 {
		if err := d.SetKey(kvs[i].v, kvs[i+1].v); err != nil {
			panic(err)
		}
		e = append(e, [2]D{kvs[i].d, kvs[i+1].d})
		dp = append(dp, kvs[i+1].depth)
	}
	return mk{d, D{T: "dict", KV: e}, 1 + maxd(dp)}
}
func set(ks ...mk) mk {
	s := starlark.NewSet(len(ks))
	var e []D
	for _, k := range ks {
		if err := s.Insert(k.v); err != nil {
			panic(err)
		}
		e = append(e, k.d)
	}
	return mk{s, D{T: "set", E: e}, 1}
}
func nest(k int, inner mk, aslist bool) mk {
	x := inner
	for i := 0; i < k; i++ {
		if aslist {
			x = list(x)
		} else {
			x = tuple(x)
		}
	}
	return x
}

func pow2(k uint) *big.Int { return new(big.Int).Lsh(big.NewInt(1), k) }
func neg(z *big.Int) *big.Int { return new(big.Int).Neg(z) }
func add(z *big.Int, d int64) *big.Int { return new(big.Int).Add(z, big.NewInt(d)) }

func classOf(d D) string {
	switch d.T {
	case "int", "float":
		return "num"
	case "str", "bytes", "bool", "tuple", "list", "time", "dur":
		return d.T
	}
	return "other"
}

var ops = []syntax.Token{syntax.EQL, syntax.NEQ, syntax.LT, syntax.LE, syntax.GT, syntax.GE}

func cmpCode(op syntax.Token, x, y starlark.Value) (c byte) {
	defer func() {
		if e := recover(); e != nil {
			c = 'P'
		}
	}()
	b, err := starlark.Compare(op, x, y)
	if err != nil {
		return 'E'
	}
	if b {
		return 'T'
	}
	return 'F'
}

func safeHash(v starlark.Value) (h *uint32, panicked bool) {
	defer func() {
		if e := recover(); e != nil {
			h, panicked = nil, true
		}
	}()
	x, err := v.Hash()
	if err != nil {
		return nil, false
	}
	return &x, false
}

type law struct {
	Kind   string `json:"kind"`
	Law    string `json:"law"`
	Idx    []int  `json:"idx"`
	Detail string `json:"detail"`
}

var nlaws = map[string]int{}
var nviol = 0

func violate(name string, detail string, idx ...int) {
	nviol++
	if nviol <= 200 {
		hx.Emit(law{"law", name, idx, detail})
	}
}

func main() {
	seed := flag.Uint64("seed", 1, "")
	nseq := flag.Int("nseq", 400, "random sequences under sorted/min/max")
	small := flag.Bool("small", false, "reduced pool (quick tier)")
	nbands := flag.Int("bands", 24, "magnitude bands 2^20..2^1023: an integral float with a random mantissa, the equal Int and their neighbours")
	flag.Parse()
	defer func() {
		// a host panic anywhere (e.g. inside Hash() during a dict insertion) is an observation, not a crash
		if e := recover(); e != nil {
			violate("host-panic", fmt.Sprint("host panic: ", e))
			hx.Emit(map[string]any{"kind": "stats", "pool": 0, "pairs": 0, "triples_checked": 0, "violations": nviol, "limit": starlark.CompareLimit, "aborted": true})
			hx.Flush()
		}
	}()
	r := hx.NewRand(*seed)
	thread := &starlark.Thread{Name: "c11"}

	// ---- functions
	globals, err := starlark.ExecFileOptions(&syntax.FileOptions{}, thread, "c11.star",
		"def f(): pass\ndef g(): pass\nl1 = lambda: 1\nl2 = lambda: 2\n", nil)
	if err != nil {
		panic(err)
	}
	up1, _ := starlark.String("abc").Attr("upper")
	up2, _ := starlark.String("abc").Attr("upper")

	zones := []*time.Location{time.UTC, time.FixedZone("A", 3600), time.FixedZone("B", -5*3600-1800)}
	e300, _ := new(big.Float).SetFloat64(1e300).Int(nil)

	var pool []mk
	addm := func(ms ...mk) { pool = append(pool, ms...) }
	// atoms
	addm(aNone(), aBool(false), aBool(true))
	addm(aI(0), aI(1), aI(-1), aI(2), aI(math.MaxInt32), aI(math.MaxInt32+1), aI(math.MinInt32), aI(math.MinInt32-1),
		aInt(add(pow2(53), -1)), aInt(pow2(53)), aInt(add(pow2(53), 1)), aInt(pow2(63)), aInt(pow2(64)), aInt(add(pow2(64), 1)),
		aInt(neg(pow2(64))), aInt(e300), aInt(add(e300, 1)), aInt(add(pow2(32), -3)), aInt(neg(pow2(40))))
	addm(aFloat(0), aFloat(math.Copysign(0, -1)), aFloat(1), aFloat(-1), aFloat(1.5), aFloat(2), aFloat(0.1),
		aFloat(math.MaxInt32+1), aFloat(math.MinInt32), aFloat(float64(1<<53)-1), aFloat(1<<53), aFloat(float64(1<<53)+2),
		aFloat(math.Ldexp(1, 63)), aFloat(math.Ldexp(1, 64)), aFloat(-math.Ldexp(1, 64)), aFloat(1e300), aFloat(math.NaN()),
		aFloat(math.Inf(1)), aFloat(math.Inf(-1)), aFloat(5e-324), aFloat(-math.Ldexp(1, 40)), aFloat(math.MaxFloat64))
	addm(aStr(""), aStr("a"), aStr("ab"), aStr("abc"), aStr("abd"), aStr("hello world"), aStr("hello world!"), aStr("hello world!!"),
		aStr("the quick brown fox jumps over the lazy dog"), aStr("the quick brown fox jumps over the lazy dot"), aStr("\xff\x00"))
	addm(aBytes(""), aBytes("a"), aBytes("abc"), aBytes("hello world!"), aBytes("\xff\x00"), aBytes("the quick brown fox jumps over the lazy dog"))
	addm(aFunc(globals["f"], "f"), aFunc(globals["g"], "g"), aFunc(globals["l1"], "lambda"), aFunc(globals["l2"], "lambda"))
	addm(aBuiltin(starlark.Universe["len"].(*starlark.Builtin)), aBuiltin(starlark.Universe["str"].(*starlark.Builtin)),
		aBuiltin(up1.(*starlark.Builtin)), aBuiltin(up2.(*starlark.Builtin)))
	addm(aTime(0, zones[0]), aTime(1700000000123456789, zones[0]), aTime(1700000000123456789, zones[1]), aTime(-1, zones[2]), aTime(1700000000123456790, zones[2]))
	addm(aDur(0), aDur(1), aDur(-1), aDur(1<<40), aDur(3600e9))
	// the whole representable range of durations and instants: extremes, +-2^62, far-apart pairs
	// whose difference overflows int64, neighbours, the same instant in different zones
	addm(aDur(math.MaxInt64), aDur(math.MinInt64), aDur(math.MaxInt64-1), aDur(math.MinInt64+1), aDur(1<<62), aDur(-(1<<62)),
		aDur(1<<62+1), aDur(2000000*3600e9), aDur(-2000000*3600e9), aDur(1<<63-1<<31), aDur(-(1<<31)), aDur(1<<31), aDur(1<<32+5))
	addm(aTime(math.MaxInt64, zones[0]), aTime(math.MinInt64, zones[1]), aTime(math.MaxInt64-1, zones[2]), aTime(math.MinInt64+1, zones[0]),
		aTime(1<<62, zones[1]), aTime(-(1<<62), zones[2]), aTime(1, zones[0]), aTime(-1, zones[1]), aTime(0, zones[2]),
		aTimeAt(-62135596800, 0, zones[0]), aTimeAt(-62135596800, 1, zones[1]), aTimeAt(253402300799, 999999999, zones[2]), aTimeAt(253402300799, 999999999, zones[0]),
		aTimeAt(1<<40, 5, zones[1]), aTimeAt(-(1<<40), 5, zones[2]))
	natoms := len(pool)
	// containers
	one, onef, two := aI(1), aFloat(1), aI(2)
	nan := aFloat(math.NaN())
	addm(tuple(), tuple(one), tuple(onef), tuple(one, two), tuple(one, two, aI(3)), tuple(one, aStr("a")), tuple(aStr("a"), one), tuple(nan),
		tuple(tuple(one)), tuple(aInt(pow2(64))), tuple(aFloat(math.Ldexp(1, 64))), tuple(aI(0)), tuple(aFloat(math.Copysign(0, -1))),
		tuple(one, onef), tuple(two), tuple(one, aI(3)), tuple(aStr("hello world!"), aBool(true)), tuple(list(one)))
	// values sharing storage with other pool values: step-1 slices of a tuple are sub-slices of
	// the same backing array (same first element address, different length)
	{
		base := tuple(one, two, aI(3))
		bt := base.v.(starlark.Tuple)
		sl := func(lo, hi int) mk {
			return mk{bt.Slice(lo, hi, 1), D{T: "tuple", E: base.d.E[lo:hi]}, 2}
		}
		mixed := tuple(one, aStr("a"), nan)
		mt := mixed.v.(starlark.Tuple)
		msl := func(lo, hi int) mk {
			return mk{mt.Slice(lo, hi, 1), D{T: "tuple", E: mixed.d.E[lo:hi]}, 2}
		}
		addm(base, sl(0, 1), sl(0, 2), sl(0, 3), sl(1, 3), sl(2, 3), mixed, msl(0, 1), msl(0, 2), msl(0, 3), msl(2, 3))
	}
	addm(list(), list(one), list(onef), list(one, two), list(nan), list(aStr("a")), list(list(one)), list(two), list(one, two, aI(3)), list(tuple(one)),
		list(one, aStr("a")), list(aBool(false)))
	for _, k := range []int{8, 9, 10, 11} { // depth k+1: 9, 10, 11, 12
		addm(nest(k, one, false), nest(k, onef, false), nest(k, two, false), nest(k, aStr("a"), false))
		addm(nest(k, one, true), nest(k, two, true))
	}
	addm(tuple(nest(10, one, false), one), tuple(nest(10, one, false), two), tuple(nest(10, one, false)), tuple(one, nest(10, one, false)))
	addm(rng(thread, 0, 0, 1), rng(thread, 1, 1, 1), rng(thread, 0, 3, 1), rng(thread, 0, 10, 3), rng(thread, 0, 12, 3), rng(thread, 5, 6, 7), rng(thread, 5, 6, 9),
		rng(thread, 0, 3, 2), rng(thread, 3, 0, -1), rng(thread, 0, 4, 2))
	sdef := mk{starlarkstruct.Default, dStr("struct"), 1}
	spt := aStr("point")
	blen := aBuiltin(starlark.Universe["len"].(*starlark.Builtin))
	addm(strct(sdef, []string{"a"}, []mk{one}), strct(sdef, []string{"a"}, []mk{onef}), strct(sdef, []string{"a", "b"}, []mk{one, two}),
		strct(sdef, []string{"b"}, []mk{two}), strct(spt, []string{"a"}, []mk{one}), strct(blen, []string{"a"}, []mk{one}),
		strct(sdef, nil, nil), strct(sdef, []string{"a"}, []mk{list(one)}), strct(sdef, []string{"a"}, []mk{nan}),
		strct(sdef, []string{"a"}, []mk{nest(9, one, false)}), strct(sdef, []string{"hello_world_12"}, []mk{aStr("x")}))
	addm(dict(), dict(one, one), dict(onef, one), dict(aStr("a"), list(one)), dict(one, one, two, two), dict(two, two, one, one), dict(one, two),
		dict(aStr("a"), nest(9, one, true)), dict(aStr("a"), nest(10, one, true)))
	addm(set(), set(one), set(onef), set(one, two), set(two, one), set(aStr("a")), set(one, two, aI(3)))

	var group []int
	for range pool {
		group = append(group, -1)
	}
	// ---- ints PRODUCED by operations (not built by the constructors): every Int operator with at
	// least one operand outside the int32 range whose mathematical result is small (negative,
	// zero, positive, the int32 boundaries), plus conversions; each next to the same value built
	// directly.  Equal values must hash and compare alike whatever produced them.
	{
		B := []*big.Int{pow2(40), neg(pow2(40)), add(pow2(64), 1), neg(add(pow2(64), 1)), pow2(31), neg(add(pow2(31), 1))}
		smalls := []int64{0, 1, -1, -3, 7, math.MaxInt32, math.MinInt32, 12345, -12345}
		bin := func(op syntax.Token, x, y starlark.Value) starlark.Value {
			v, err := starlark.Binary(op, x, y)
			if err != nil || v == nil {
				return nil
			}
			return v
		}
		mkI := func(z *big.Int) starlark.Value { return starlark.MakeBigInt(z) }
		var derived []starlark.Value
		for _, b := range B {
			nb := new(big.Int).Not(b)
			for _, s0 := range smalls {
				sv := big.NewInt(s0)
				derived = append(derived,
					bin(syntax.MINUS, mkI(new(big.Int).Add(b, sv)), mkI(b)),                  // (b+s) - b
					bin(syntax.PLUS, mkI(b), mkI(new(big.Int).Sub(sv, b))),                   // b + (s-b)
					bin(syntax.CIRCUMFLEX, mkI(b), mkI(new(big.Int).Xor(b, sv))),             // b ^ (b^s)
					bin(syntax.AMP, mkI(new(big.Int).Or(new(big.Int).Lsh(b, 32), sv)), mkI(big.NewInt(0xffffffff))), // low word
					bin(syntax.PERCENT, mkI(new(big.Int).Add(new(big.Int).Mul(new(big.Int).Abs(b), big.NewInt(3)), new(big.Int).Abs(sv))), mkI(new(big.Int).Abs(b))),
					bin(syntax.SLASHSLASH, mkI(new(big.Int).Mul(b, sv)), mkI(b)),             // (b*s) // b
					bin(syntax.STAR, mkI(b), starlark.MakeInt(0)),
				)
				if s0 != 0 {
					derived = append(derived, bin(syntax.GTGT, mkI(new(big.Int).Lsh(sv, 70)), starlark.MakeInt(70))) // (s<<70) >> 70
					derived = append(derived, bin(syntax.PIPE, mkI(new(big.Int).And(b, sv)), mkI(new(big.Int).AndNot(sv, b))))
				}
			}
			derived = append(derived, bin(syntax.PIPE, mkI(b), mkI(nb)), bin(syntax.AMP, mkI(b), mkI(nb)), bin(syntax.CIRCUMFLEX, mkI(b), mkI(nb)),
				bin(syntax.SLASHSLASH, mkI(b), mkI(b)), bin(syntax.SLASHSLASH, mkI(b), mkI(new(big.Int).Neg(b))), bin(syntax.PERCENT, mkI(b), mkI(b)))
			if u, err := starlark.Unary(syntax.MINUS, mkI(b)); err == nil {
				derived = append(derived, u)
			}
			if u, err := starlark.Unary(syntax.TILDE, mkI(nb)); err == nil {
				derived = append(derived, u)
			}
		}
		for _, src := range []string{"int(-3.0)", "int('-3')", "int(1e20) - int(1e20) - 3", "int('-3', 16)", "(1 << 40) >> 40", "-(1 << 31)", "~(-(1 << 40)) - (1 << 40)", "abs(-(1<<40)) - (1<<40) - 3", "hash('') * 0 - 3"} {
			if v, err := starlark.Eval(thread, "d", src, nil); err == nil {
				derived = append(derived, v)
			}
		}
		seenD := map[string]int{}
		for _, v := range derived {
			iv, ok := v.(starlark.Int)
			if !ok {
				continue
			}
			z := iv.BigInt()
			if seenD[z.String()] >= 3 { // up to three differently produced copies of each value
				continue
			}
			if seenD[z.String()] == 0 {
				pool = append(pool, aInt(z), aFloat(func() float64 { f, _ := new(big.Float).SetInt(z).Float64(); return f }()))
				group = append(group, -1, -1)
			}
			seenD[z.String()]++
			pool = append(pool, mk{iv, dInt(z), 1})
			group = append(group, -1)
		}
	}

	// ---- magnitude bands: for k in 53..1023 an integral float m*2^(k-52) with a random odd
	// 53-bit mantissa (so the low bits of the equal Int are not zero until the shift exceeds
	// the word), the exactly equal Int, Int+-1, the neighbouring floats and the Int equal to one
	// of them.  group[i] = band number of pool entry i (-1: base pool).
	for len(group) < len(pool) {
		group = append(group, -1)
	}
	bands := []int{53, 54, 31, 63, 64, 65, 32, 83, 84, 85, 52, 95, 96, 127, 128, 62, 66, 255, 256, 30, 511, 1000, 1022, 1023, 55, 70, 86, 97, 512, 40, 47, 33}
	seenBand := map[int]bool{}
	for _, b := range bands {
		seenBand[b] = true
	}
	for len(bands) < *nbands {
		b := 20 + r.Intn(1023-20+1)
		if !seenBand[b] {
			seenBand[b] = true
			bands = append(bands, b)
		}
	}
	if len(bands) > *nbands {
		// keep the word-boundary bands, fill the rest by the seed
		keep := bands[:0:0]
		for _, b := range bands {
			if len(keep) < *nbands {
				keep = append(keep, b)
			}
		}
		bands = keep
	}
	for gi, k := range bands {
		m := (uint64(1) << 52) | (r.Uint64() & (1<<52 - 1)) | 1
		f := math.Ldexp(float64(m), k-52)
		if k < 52 {
			// below 2^53: a (k+1)-bit odd integer, exactly representable
			f = float64((uint64(1) << uint(k)) | (r.Uint64() & (1<<uint(k) - 1)) | 1)
		}
		if r.Bool() {
			f = -f
		}
		toInt := func(x float64) *big.Int { z, _ := new(big.Float).SetFloat64(x).Int(nil); return z }
		fup, fdn := math.Nextafter(f, math.Inf(1)), math.Nextafter(f, math.Inf(-1))
		iv := toInt(f)
		ms := []mk{aFloat(f), aInt(iv), aInt(add(iv, 1)), aInt(add(iv, -1)), aFloat(fup), aFloat(fdn)}
		if !math.IsInf(fup, 0) {
			ms = append(ms, aInt(toInt(fup)))
		}
		if gi%4 == 0 {
			ms = append(ms, tuple(aFloat(f), aStr("a")), tuple(aInt(iv), aStr("a")))
		}
		for _, x := range ms {
			pool = append(pool, x)
			group = append(group, k)
		}
	}

	if *small {
		// quick tier: keep every third atom-pool duplicate-magnitude value but all kinds
		var p2 []mk
		var g2 []int
		for i, m := range pool {
			if i < natoms && i%3 == 2 && m.d.T != "float" && m.d.T != "int" {
				continue
			}
			p2 = append(p2, m)
			g2 = append(g2, group[i])
		}
		pool, group = p2, g2
	}

	n := len(pool)
	items := make([]item, n)
	for i, m := range pool {
		b, _ := json.Marshal(m.d)
		h, pan := safeHash(m.v)
		if pan {
			violate("hash-panic", "Hash() panicked", i)
		}
		items[i] = item{v: m.v, d: m.d, cls: classOf(m.d), depth: m.depth, hash: h, dj: string(b)}
	}
	for i, it := range items {
		var hs *string
		if it.hash != nil {
			s := fmt.Sprint(*it.hash)
			hs = &s
		}
		hx.Emit(map[string]any{"kind": "pool", "i": i, "v": it.d, "hash": hs, "depth": it.depth, "cls": it.cls, "grp": group[i]})
	}
	for s := range strs {
		h, _ := starlark.String(s).Hash()
		hx.Emit(map[string]any{"kind": "strhash", "hex": hex.EncodeToString([]byte(s)), "h": fmt.Sprint(h)})
	}

	// ---- the pair matrix: six operators on every ordered pair
	res := make([][]byte, n) // res[i][6*j+o]
	for i := range items {
		row := make([]byte, 6*n)
		for j := range items {
			for o, op := range ops {
				row[6*j+o] = cmpCode(op, items[i].v, items[j].v)
			}
		}
		res[i] = row
		hx.Emit(map[string]any{"kind": "row", "i": i, "r": string(row)})
	}
	at := func(i, j, o int) byte { return res[i][6*j+o] }
	const (
		oEQ = iota
		oNE
		oLT
		oLE
		oGT
		oGE
	)
	limit := starlark.CompareLimit
	isSet := func(i int) bool { return items[i].d.T == "set" }

	// ---- pair laws
	for i := 0; i < n; i++ {
		// reflexivity
		c := at(i, i, oEQ)
		if items[i].depth <= limit && c != 'T' {
			violate("eq_refl", fmt.Sprintf("x == x gives %c", c), i)
		} else if c == 'F' || c == 'P' {
			violate("eq_refl_deep", fmt.Sprintf("x == x gives %c beyond the depth limit", c), i)
		}
		for j := 0; j < n; j++ {
			eq, ne, lt, le, gt, ge := at(i, j, oEQ), at(i, j, oNE), at(i, j, oLT), at(i, j, oLE), at(i, j, oGT), at(i, j, oGE)
			for _, c := range []byte{eq, ne, lt, le, gt, ge} {
				if c == 'P' {
					violate("compare-panic", "host panic in Compare", i, j)
				}
			}
			// != is the negation of ==
			if !((eq == 'T' && ne == 'F') || (eq == 'F' && ne == 'T') || (eq == 'E' && ne == 'E')) {
				violate("neq_negation", fmt.Sprintf("== %c, != %c", eq, ne), i, j)
			}
			// symmetry
			if eq != at(j, i, oEQ) {
				violate("eq_sym", fmt.Sprintf("x==y %c, y==x %c", eq, at(j, i, oEQ)), i, j)
			}
			// within the depth limit == never fails
			if items[i].depth <= limit && items[j].depth <= limit && eq == 'E' {
				violate("eq_total", "== fails within the depth limit", i, j)
			}
			// equal values have equal hashes
			if eq == 'T' {
				hi, hj := items[i].hash, items[j].hash
				if (hi == nil) != (hj == nil) || (hi != nil && *hi != *hj) {
					violate("eq_hash", fmt.Sprintf("x == y but hashes %v / %v", fmtH(hi), fmtH(hj)), i, j)
				}
			}
			// ordered classes: total
			ci, cj := items[i].cls, items[j].cls
			if ci == cj && (ci == "num" || ci == "str" || ci == "bytes" || ci == "bool" || ci == "time" || ci == "dur") && lt == 'E' {
				violate("order_total", "< fails on an ordered class", i, j)
			}
			if isSet(i) || isSet(j) {
				continue // sets: <= is the subset relation (a partial order)
			}
			if lt == 'E' || le == 'E' || gt == 'E' || ge == 'E' {
				if !(lt == 'E' && le == 'E' && gt == 'E' && ge == 'E') {
					violate("order_error_uniform", fmt.Sprintf("< %c <= %c > %c >= %c", lt, le, gt, ge), i, j)
				}
				continue
			}
			// all four answered: they must describe one outcome of a total order
			k := 0
			if lt == 'T' {
				k++
			}
			if eq == 'T' {
				k++
			}
			if gt == 'T' {
				k++
			}
			if eq == 'E' || k != 1 {
				violate("order_trichotomy", fmt.Sprintf("< %c == %c > %c", lt, eq, gt), i, j)
			}
			if (le == 'T') != (lt == 'T' || eq == 'T') || (ge == 'T') != (gt == 'T' || eq == 'T') {
				violate("order_le_ge", fmt.Sprintf("< %c == %c > %c <= %c >= %c", lt, eq, gt, le, ge), i, j)
			}
			if gt != at(j, i, oLT) || ge != at(j, i, oLE) {
				violate("order_converse", fmt.Sprintf("x>y %c but y<x %c; x>=y %c, y<=x %c", gt, at(j, i, oLT), ge, at(j, i, oLE)), i, j)
			}
		}
	}
	// ---- triple laws (on the matrix; all triples)
	ntr := 0
	for i := 0; i < n; i++ {
		for j := 0; j < n; j++ {
			eqij := at(i, j, oEQ) == 'T'
			ltij := at(i, j, oLT) == 'T'
			if !eqij && !ltij {
				continue
			}
			for k := 0; k < n; k++ {
				// all triples of the base pool; band values: triples inside one band, and
				// (band, band, anything) / (anything, band, band) chains through an equal pair
				if !(group[i] == group[j] || group[j] == group[k]) {
					continue
				}
				ntr++
				if eqij && at(j, k, oEQ) == 'T' && at(i, k, oEQ) != 'T' {
					violate("eq_trans", fmt.Sprintf("x==y, y==z but x==z gives %c", at(i, k, oEQ)), i, j, k)
				}
				if ltij && at(j, k, oLT) == 'T' && at(i, k, oLT) != 'T' && !isSet(i) {
					violate("lt_trans", fmt.Sprintf("x<y, y<z but x<z gives %c", at(i, k, oLT)), i, j, k)
				}
				if eqij && items[i].depth <= limit && items[j].depth <= limit && items[k].depth <= limit {
					for o := 0; o < 6; o++ {
						if at(i, k, o) != at(j, k, o) || at(k, i, o) != at(k, j, o) {
							violate("eq_congruence", fmt.Sprintf("x==y but op %d against z differs: %c/%c %c/%c", o, at(i, k, o), at(j, k, o), at(k, i, o), at(k, j, o)), i, j, k)
						}
					}
				}
			}
		}
	}

	// ---- membership: y in {x: 1}, y in set([x]) must agree with x == y
	for i := range items {
		if items[i].hash == nil {
			continue
		}
		d := starlark.NewDict(1)
		s := starlark.NewSet(1)
		if msg := guard(func() error { return d.SetKey(items[i].v, starlark.MakeInt(1)) }); msg != "" {
			violate("dict-insert", msg, i)
			continue
		}
		if msg := guard(func() error { return s.Insert(items[i].v) }); msg != "" {
			violate("set-insert", msg, i)
			continue
		}
		drow := make([]byte, n)
		srow := make([]byte, n)
		for j := range items {
			var found, f2 bool
			var err, err2 error
			if msg := guard(func() error { _, found, err = d.Get(items[j].v); f2, err2 = s.Has(items[j].v); return nil }); msg != "" {
				violate("dict-lookup", msg, i, j)
				drow[j], srow[j] = 'P', 'P'
				continue
			}
			drow[j] = tf(found, err)
			srow[j] = tf(f2, err2)
			if items[j].hash != nil {
				want := at(i, j, oEQ)
				if items[i].depth <= limit && items[j].depth <= limit && (drow[j] != want || srow[j] != want) {
					violate("membership", fmt.Sprintf("x==y is %c but y in {x:1} is %c, y in set([x]) is %c", want, drow[j], srow[j]), i, j)
				}
			}
		}
		hx.Emit(map[string]any{"kind": "member", "i": i, "dict": string(drow), "set": string(srow)})
	}
	// one dict holding every hashable shallow value: one entry per ==-class, nothing lost
	{
		d := starlark.NewDict(n)
		var reps []int
		for i := range items {
			if items[i].hash == nil || items[i].depth > limit {
				continue
			}
			isnew := true
			for _, q := range reps {
				if at(q, i, oEQ) == 'T' {
					isnew = false
				}
			}
			if isnew {
				reps = append(reps, i)
			}
			if msg := guard(func() error { return d.SetKey(items[i].v, starlark.MakeInt(i)) }); msg != "" {
				violate("dict-insert", msg, i)
			}
		}
		var missing []int
		for i := range items {
			if items[i].hash == nil || items[i].depth > limit {
				continue
			}
			found := false
			guard(func() error { _, found, _ = d.Get(items[i].v); return nil })
			if !found {
				missing = append(missing, i)
			}
		}
		if d.Len() != len(reps) || len(missing) > 0 {
			violate("dict_classes", fmt.Sprintf("dict of all hashable values has %d entries for %d ==-classes; not found: %v", d.Len(), len(reps), missing))
		}
		hx.Emit(map[string]any{"kind": "alldict", "len": d.Len(), "classes": len(reps)})
	}
	// ---- dict / set HISTORIES: equal keys of different representations stay interchangeable after
	// any sequence of insertions, updates and deletions, also with many keys in one bucket chain
	// (multiples of 1024 collide in the low hash bits) - checked against a reference keyed by the
	// mathematical value
	{
		rep := func(k, form int) starlark.Value {
			z := int64(k) * 1024
			if k%7 == 3 {
				z = -z
			}
			switch form {
			case 0:
				return starlark.MakeInt64(z)
			case 1:
				return starlark.Float(float64(z))
			case 2:
				return starlark.Tuple{starlark.MakeInt64(z), starlark.String("k")}
			default:
				return starlark.Tuple{starlark.Float(float64(z)), starlark.String("k")}
			}
		}
		nh := *nseq/2 + 50
		for h := 0; h < nh; h++ {
			rr := r.Split()
			nkeys := 10 + rr.Intn(30)
			d := starlark.NewDict(0)
			st := starlark.NewSet(0)
			refD := map[[2]int]int{} // (k, scalar|tuple) -> value
			refS := map[[2]int]bool{}
			var trace []string
			bad := func(what string) {
				if len(trace) > 40 {
					trace = trace[len(trace)-40:]
				}
				violate("dict_history", what+"; last operations: "+fmt.Sprint(trace))
			}
			failed := false
			for step := 0; step < 40+rr.Intn(80) && !failed; step++ {
				k, form := rr.Intn(nkeys), rr.Intn(4)
				id := [2]int{k, form / 2}
				key := rep(k, form)
				switch rr.Intn(6) {
				case 0, 1, 2:
					trace = append(trace, fmt.Sprintf("d[%v]=%d", key, step))
					if err := d.SetKey(key, starlark.MakeInt(step)); err != nil {
						bad("SetKey failed: " + err.Error())
						failed = true
					}
					refD[id] = step
				case 3:
					trace = append(trace, fmt.Sprintf("del d[%v]", key))
					_, found, _ := d.Delete(key)
					if _, want := refD[id]; found != want {
						bad(fmt.Sprintf("Delete(%v) found=%v, expected %v", key, found, want))
						failed = true
					}
					delete(refD, id)
				case 4:
					trace = append(trace, fmt.Sprintf("s.add(%v)", key))
					st.Insert(key)
					refS[id] = true
				default:
					trace = append(trace, fmt.Sprintf("s.discard(%v)", key))
					st.Delete(key)
					delete(refS, id)
				}
				if d.Len() != len(refD) || st.Len() != len(refS) {
					bad(fmt.Sprintf("len(dict)=%d for %d distinct keys, len(set)=%d for %d", d.Len(), len(refD), st.Len(), len(refS)))
					failed = true
					break
				}
				// lookups through every representation
				for q := 0; q < 6; q++ {
					k2, f2 := rr.Intn(nkeys), rr.Intn(4)
					id2 := [2]int{k2, f2 / 2}
					v, found, _ := d.Get(rep(k2, f2))
					want, in := refD[id2]
					if found != in || (found && fmt.Sprint(v) != fmt.Sprint(want)) {
						bad(fmt.Sprintf("d.get(%v) = %v,%v but the reference has %v,%v", rep(k2, f2), v, found, want, in))
						failed = true
						break
					}
					if has, _ := st.Has(rep(k2, f2)); has != refS[id2] {
						bad(fmt.Sprintf("%v in set is %v, expected %v", rep(k2, f2), has, refS[id2]))
						failed = true
						break
					}
				}
			}
			if !failed {
				ks := d.Keys()
				for a := 0; a < len(ks) && !failed; a++ {
					for b := a + 1; b < len(ks); b++ {
						if eq, _ := starlark.Equal(ks[a], ks[b]); eq {
							bad(fmt.Sprintf("dict holds two equal keys %v and %v", ks[a], ks[b]))
							failed = true
							break
						}
					}
				}
			}
		}
		hx.Emit(map[string]any{"kind": "dicthist", "histories": nh})
	}
	// a value's hash never changes
	for i := range items {
		h2, _ := safeHash(items[i].v)
		items[i].v.Freeze()
		h3, _ := safeHash(items[i].v)
		if fmtH(h2) != fmtH(items[i].hash) || fmtH(h3) != fmtH(items[i].hash) {
			violate("hash_stable", fmt.Sprintf("hash changed: %s, %s, %s", fmtH(items[i].hash), fmtH(h2), fmtH(h3)), i)
		}
	}

	// ---- sorted / min / max
	byCls := map[string][]int{}
	var all []int
	for i, it := range items {
		if it.depth <= limit {
			byCls[it.cls] = append(byCls[it.cls], i)
			all = append(all, i)
		}
	}
	classes := []string{"num", "num", "num", "str", "bytes", "bool", "tuple", "list", "mixed", "time", "dur", "dur"}
	lessOK := func(a, b int) (bool, bool) { c := at(a, b, oLT); return c == 'T', c == 'T' || c == 'F' }
	for q := 0; q < *nseq; q++ {
		cl := classes[r.Intn(len(classes))]
		src := byCls[cl]
		if cl == "mixed" {
			src = all
		}
		ln := r.Intn(9)
		if r.Intn(10) == 0 {
			ln = 12 + r.Intn(30) // long enough for sort.Stable to leave insertion sort
		}
		seq := make([]int, ln)
		for i := range seq {
			seq[i] = src[r.Intn(len(src))]
		}
		if cl == "num" && ln > 3 && r.Bool() { // many equal keys across representations
			eqs := []int{}
			for _, i := range src {
				if at(i, seq[0], oEQ) == 'T' {
					eqs = append(eqs, i)
				}
			}
			for i := range seq {
				if r.Bool() {
					seq[i] = eqs[r.Intn(len(eqs))]
				}
			}
		}
		keyed := r.Bool()
		reverse := r.Bool()
		comparable := true
		for _, a := range seq {
			for _, b := range seq {
				if _, ok := lessOK(a, b); !ok {
					comparable = false
				}
			}
		}
		// sorted
		out, errd := runSorted(thread, items, seq, keyed, reverse)
		rec := map[string]any{"kind": "sort", "cls": cl, "keyed": keyed, "reverse": reverse, "items": seq, "comparable": comparable}
		if errd != "" {
			rec["out"] = nil
			rec["err"] = errd
			if comparable || errd == "panic" {
				violate("sorted_error", "sorted fails ("+errd+") although every pair of keys is comparable", seq...)
			}
		} else {
			rec["out"] = out
			if comparable {
				checkSorted(seq, out, reverse, lessOK)
			}
		}
		hx.Emit(rec)
		// min / max
		for _, which := range []string{"min", "max"} {
			pos, errd := runMinMax(thread, items, seq, keyed, which)
			rec := map[string]any{"kind": "minmax", "which": which, "keyed": keyed, "items": seq, "comparable": comparable}
			if errd != "" {
				rec["err"] = errd
				if errd == "panic" || (errd == "err" && comparable && len(seq) > 0) || (errd == "empty" && len(seq) > 0) {
					violate("minmax_error", which+" fails ("+errd+") although every pair of keys is comparable", seq...)
				}
			} else {
				rec["out"] = pos
				if len(seq) == 0 {
					violate("minmax_empty", which+" of an empty sequence returned a value")
				} else if comparable {
					// first extremal element
					for p, a := range seq {
						var better bool
						if which == "min" {
							better, _ = lessOK(a, seq[pos])
						} else {
							better, _ = lessOK(seq[pos], a)
						}
						if better {
							violate("minmax_extremal", fmt.Sprintf("%s returned position %d but position %d is strictly better", which, pos, p), seq...)
						}
						var asgood bool
						if which == "min" {
							b, _ := lessOK(seq[pos], a)
							asgood = !b
						} else {
							b, _ := lessOK(a, seq[pos])
							asgood = !b
						}
						if asgood && p < pos {
							violate("minmax_first", fmt.Sprintf("%s returned position %d but the equally extremal position %d comes first", which, pos, p), seq...)
						}
					}
				}
			}
			hx.Emit(rec)
		}
	}
	hx.Emit(map[string]any{"kind": "stats", "pool": n, "pairs": n * n, "triples_checked": ntr, "violations": nviol, "limit": limit})
	hx.Flush()
}

// guard runs f; a returned error or a host panic is reported as a message
func guard(f func() error) (msg string) {
	defer func() {
		if e := recover(); e != nil {
			msg = fmt.Sprint("host panic: ", e)
		}
	}()
	if err := f(); err != nil {
		return err.Error()
	}
	return ""
}

func fmtH(h *uint32) string {
	if h == nil {
		return "unhashable"
	}
	return fmt.Sprint(*h)
}

func tf(b bool, err error) byte {
	if err != nil {
		return 'E'
	}
	if b {
		return 'T'
	}
	return 'F'
}

func checkSorted(seq, out []int, reverse bool, lessOK func(a, b int) (bool, bool)) {
	if len(out) != len(seq) {
		violate("sorted_perm", "output length differs", seq...)
		return
	}
	seen := make([]bool, len(seq))
	for _, p := range out {
		if p < 0 || p >= len(seq) || seen[p] {
			violate("sorted_perm", "output is not a permutation of the input", seq...)
			return
		}
		seen[p] = true
	}
	for i := 0; i+1 < len(out); i++ {
		a, b := seq[out[i]], seq[out[i+1]]
		var wrong, tie bool
		if !reverse {
			w, _ := lessOK(b, a)
			x, _ := lessOK(a, b)
			wrong, tie = w, !w && !x
		} else {
			w, _ := lessOK(a, b)
			x, _ := lessOK(b, a)
			wrong, tie = w, !w && !x
		}
		if wrong {
			violate("sorted_order", fmt.Sprintf("output positions %d,%d out of order (reverse=%v) out=%v", i, i+1, reverse, out), seq...)
		}
		if tie && out[i] > out[i+1] {
			violate("sorted_stable", fmt.Sprintf("equal keys reordered: input positions %d before %d (reverse=%v) out=%v", out[i], out[i+1], reverse, out), seq...)
		}
	}
}

// runSorted calls the real sorted builtin.  keyed: sorted(range(n), key=K, reverse=r)
// where K(p) is the key at position p; otherwise sorted(values, reverse=r) and the
// output values are mapped back to input positions (first unused position with an
// identical descriptor).
func runSorted(thread *starlark.Thread, items []item, seq []int, keyed, reverse bool) (out []int, errd string) {
	defer func() {
		if e := recover(); e != nil {
			out, errd = nil, "panic"
		}
	}()
	kw := []starlark.Tuple{{starlark.String("reverse"), starlark.Bool(reverse)}}
	var arg starlark.Value
	if keyed {
		pos := make([]starlark.Value, len(seq))
		for i := range seq {
			pos[i] = starlark.MakeInt(i)
		}
		arg = starlark.NewList(pos)
		kf := starlark.NewBuiltin("K", func(_ *starlark.Thread, _ *starlark.Builtin, args starlark.Tuple, _ []starlark.Tuple) (starlark.Value, error) {
			p, _ := starlark.AsInt32(args[0])
			return items[seq[p]].v, nil
		})
		kw = append(kw, starlark.Tuple{starlark.String("key"), kf})
	} else {
		vs := make([]starlark.Value, len(seq))
		for i, s := range seq {
			vs[i] = items[s].v
		}
		arg = starlark.NewList(vs)
	}
	v, err := starlark.Call(thread, starlark.Universe["sorted"], starlark.Tuple{arg}, kw)
	if err != nil {
		return nil, "err"
	}
	l := v.(*starlark.List)
	out = []int{}
	used := make([]bool, len(seq))
	for i := 0; i < l.Len(); i++ {
		e := l.Index(i)
		if keyed {
			p, _ := starlark.AsInt32(e)
			out = append(out, p)
			continue
		}
		p := -1
		for q, s := range seq {
			if !used[q] && same(items[s], e) {
				p = q
				break
			}
		}
		if p >= 0 {
			used[p] = true
		}
		out = append(out, p)
	}
	return out, ""
}

// same: e is the very value stored in the pool entry (pointer identity for
// reference values, identical bits / digits for scalars).
func same(it item, e starlark.Value) bool {
	switch x := it.v.(type) {
	case starlark.Float:
		y, ok := e.(starlark.Float)
		return ok && math.Float64bits(float64(x)) == math.Float64bits(float64(y))
	case starlark.Int:
		y, ok := e.(starlark.Int)
		return ok && x.BigInt().Cmp(y.BigInt()) == 0
	case starlark.String:
		y, ok := e.(starlark.String)
		return ok && x == y
	case starlark.Bytes:
		y, ok := e.(starlark.Bytes)
		return ok && x == y
	case starlark.Bool:
		y, ok := e.(starlark.Bool)
		return ok && x == y
	case starlark.NoneType:
		return e == starlark.None
	case starlark.Tuple:
		y, ok := e.(starlark.Tuple)
		if !ok || len(x) != len(y) {
			return false
		}
		return len(x) == 0 || &x[0] == &y[0]
	case stime.Time:
		y, ok := e.(stime.Time)
		return ok && time.Time(x).Equal(time.Time(y)) && time.Time(x).Location() == time.Time(y).Location()
	case stime.Duration:
		y, ok := e.(stime.Duration)
		return ok && x == y
	}
	defer func() { recover() }()
	return it.v == e
}

func runMinMax(thread *starlark.Thread, items []item, seq []int, keyed bool, which string) (pos int, errd string) {
	defer func() {
		if e := recover(); e != nil {
			pos, errd = -1, "panic"
		}
	}()
	var arg starlark.Value
	var kw []starlark.Tuple
	if keyed {
		ps := make([]starlark.Value, len(seq))
		for i := range seq {
			ps[i] = starlark.MakeInt(i)
		}
		arg = starlark.NewList(ps)
		kf := starlark.NewBuiltin("K", func(_ *starlark.Thread, _ *starlark.Builtin, args starlark.Tuple, _ []starlark.Tuple) (starlark.Value, error) {
			p, _ := starlark.AsInt32(args[0])
			return items[seq[p]].v, nil
		})
		kw = append(kw, starlark.Tuple{starlark.String("key"), kf})
	} else {
		vs := make([]starlark.Value, len(seq))
		for i, s := range seq {
			vs[i] = items[s].v
		}
		arg = starlark.NewList(vs)
	}
	v, err := starlark.Call(thread, starlark.Universe[which], starlark.Tuple{arg}, kw)
	if err != nil {
		if len(seq) == 0 {
			return -1, "empty"
		}
		return -1, "err"
	}
	if keyed {
		p, _ := starlark.AsInt32(v)
		return p, ""
	}
	for q, s := range seq {
		if same(items[s], v) {
			return q, ""
		}
	}
	return -1, "err"
}
