// c13: runs the real index / slice / string / list operations of the
// interpreter on generated inputs and prints what was observed, one JSON
// object per line.  See checks/c13.py for the consumer.
//
// Line kinds ("k"):
//
//	case   one executed operation with its observed result, selected for
//	       evaluation in Coq (model + Spec.v) and in CPython
//	py     the same, selected for CPython only (volume)
//	gomis  the naive Go re-implementation of the specification (oracle.go)
//	       disagrees with the implementation on this case
//	crash  the case killed the child process (fatal error / panic outside recover)
//	stats  totals and the distribution of cases
package main

import (
	"bufio"
	"encoding/hex"
	"encoding/json"
	"flag"
	"fmt"
	"math/big"
	"os"
	"os/exec"
	"runtime/debug"
	"sort"
	"strconv"
	"strings"
	"syscall"
	"time"

	"go.starlark.net/starlark"
	"go.starlark.net/syntax"

	"verifharness/internal/hx"
)

// V is the JSON form of a Starlark value (or of an absent argument / an outcome).
type V struct {
	T string  `json:"t"`           // none bool int str bytes list tuple float range iter err panic nil
	// iter: an iterator view of the string / bytes S; M names it: codepoints, codepoint_ords, elems, elem_ords (string
	// methods) or belems (bytes.elems).  codepoints, codepoint_ords and belems have no Len.
	I string  `json:"i,omitempty"` // int: decimal
	B bool    `json:"b,omitempty"`
	S string  `json:"s,omitempty"` // str, bytes: hex
	L []V     `json:"l,omitempty"` // list, tuple: elements
	R []int64 `json:"r,omitempty"` // range: start, stop, step
	M string  `json:"m,omitempty"` // err, panic: message (never compared)
	F string  `json:"f,omitempty"` // float: decimal text ("" = the placeholder value 1.5)
}

// Case is one operation.
type Case struct {
	K     string `json:"k"`
	Op    string `json:"op"` // slice index setindex call builtin bin
	Kind  string `json:"kind,omitempty"`
	X     *V     `json:"x,omitempty"`    // receiver / left operand
	Name  string `json:"name,omitempty"` // method, builtin or operator
	Args  []V    `json:"args"`           // slice: lo hi step; index: i; setindex: i v; call: arguments; bin: right operand
	Obs   V      `json:"obs"`            // result (or err / panic)
	After *V     `json:"after,omitempty"` // list receiver after the call
	Want  *V     `json:"want,omitempty"` // gomis: what the Go oracle expects
	WantA *V     `json:"wanta,omitempty"`
	Kw    []V    `json:"kw,omitempty"`    // call: keyword arguments, flattened: name (str), value, name, value ...
	Key   string `json:"key,omitempty"`   // sort: name of the key= function ("" = none)
	Rev   string `json:"rev,omitempty"`   // sort: reverse= "true" | "false" | "" (omitted)
	Class string `json:"class,omitempty"` // generator class (distribution)
	GM    bool   `json:"gm,omitempty"`    // the Go copy of the specification disagrees with Obs
	// format cases sampled for Coq: what the interpreter's own str() and repr() print for every
	// positional argument and then every keyword value, in order -- two entries (hex) per value.
	// The Coq model and specification of string.format take these texts as their str_of / repr_of.
	Texts []string `json:"texts,omitempty"`
	// % interpolation cases sampled for Coq: for every value the operand offers -- the elements of a
	// tuple; the dict itself and then its values; otherwise the operand -- 14 entries: str, repr (hex,
	// from the value printer) and what "%d" "%i" "%o" "%x" "%X" "%e" "%f" "%g" "%E" "%F" "%G" "%c" print
	// for that value alone (hex), or "!" when the conversion rejects it.
	ITexts []string `json:"itexts,omitempty"`
}

func vNone() V             { return V{T: "none"} }
func vInt(i int64) V       { return V{T: "int", I: strconv.FormatInt(i, 10)} }
func vBig(z *big.Int) V    { return V{T: "int", I: z.String()} }
func vStr(s string) V      { return V{T: "str", S: hex.EncodeToString([]byte(s))} }
func vBytes(s string) V    { return V{T: "bytes", S: hex.EncodeToString([]byte(s))} }
func vBool(b bool) V       { return V{T: "bool", B: b} }
func vList(l ...V) V       { return V{T: "list", L: l} }
func vTuple(l ...V) V      { return V{T: "tuple", L: l} }
func vFloat() V            { return V{T: "float"} }
func vF(f float64) V       { return V{T: "float", F: strconv.FormatFloat(f, 'g', -1, 64)} }
func vRange(a, b, c int64) V { return V{T: "range", R: []int64{a, b, c}} }
func vIter(kind, s string) V { return V{T: "iter", M: kind, S: hex.EncodeToString([]byte(s))} }

// vDict: a dict with string keys; L holds key, value, key, value ...
func vDict(kv ...V) V { return V{T: "dict", L: kv} }

func (v V) str() string { b, _ := hex.DecodeString(v.S); return string(b) }
func (v V) float() float64 {
	if v.F == "" {
		return 1.5
	}
	f, _ := strconv.ParseFloat(v.F, 64)
	return f
}
func (v V) big() *big.Int {
	z, _ := new(big.Int).SetString(v.I, 10)
	return z
}

var thread = &starlark.Thread{Name: "c13"}
var prelude starlark.StringDict

const preludeSrc = `
def slice3(x, lo, hi, st): return x[lo:hi:st]
def index1(x, i): return x[i]
def setindex(x, i, v):
    x[i] = v
    return x
def add(x, y): return x + y
def mul(x, y): return x * y
def mod(x, y): return x % y
def mkrange(a, b, c): return range(a, b, c)
def alias(op, x, a, mut):
    # r = op(x [, a]); then mutate either r or an operand in place; return all three lists
    if op == "mul": r = x * a
    elif op == "rmul": r = a * x
    elif op == "add": r = x + a
    elif op == "radd": r = a + x
    elif op == "slice": r = x[a[0]:a[1]:a[2]]
    elif op == "list": r = list(x)
    elif op == "sorted": r = sorted(x)
    elif op == "reversed": r = reversed(x)
    elif op == "addself": r = x + x
    else: fail("alias: " + op)
    t = x
    if mut.endswith("result"): t = r
    elif mut.endswith("other"): t = a
    if mut.startswith("set"):
        if len(t) > 0: t[len(t) - 1] = 99
    elif mut.startswith("append"): t.append(99)
    elif mut.startswith("popappend"):
        if len(t) > 0: t.pop()
        t.append(98)
    elif mut.startswith("clear"): t.clear()
    elif mut.startswith("insert"): t.insert(0, 97)
    return (x, a, r)
k_len = len
k_int = int
def k_mod3(x): return x % 3
def k_zero(x): return 0
def k_first(x): return x[0]
def k_lower(x): return x.lower()
def k_neg(x): return -x
def k_ident(x): return x
`

func init() {
	var err error
	prelude, err = starlark.ExecFileOptions(&syntax.FileOptions{}, thread, "prelude.star", preludeSrc, nil)
	if err != nil {
		panic(err)
	}
}

// toStarlark builds a fresh Starlark value (lists are new and unfrozen).
func toStarlark(v V) starlark.Value {
	switch v.T {
	case "none":
		return starlark.None
	case "bool":
		return starlark.Bool(v.B)
	case "int":
		return starlark.MakeBigInt(v.big())
	case "str":
		return starlark.String(v.str())
	case "bytes":
		return starlark.Bytes(v.str())
	case "list":
		el := make([]starlark.Value, len(v.L))
		for i, e := range v.L {
			el[i] = toStarlark(e)
		}
		return starlark.NewList(el)
	case "tuple":
		el := make(starlark.Tuple, len(v.L))
		for i, e := range v.L {
			el[i] = toStarlark(e)
		}
		return el
	case "float":
		return starlark.Float(v.float())
	case "dict":
		d := starlark.NewDict(len(v.L) / 2)
		for i := 0; i+1 < len(v.L); i += 2 {
			d.SetKey(toStarlark(v.L[i]), toStarlark(v.L[i+1]))
		}
		return d
	case "iter":
		var recv starlark.HasAttrs = starlark.String(v.str())
		name := v.M
		if name == "belems" {
			recv, name = starlark.Bytes(v.str()), "elems"
		}
		m, err := recv.Attr(name)
		if err != nil || m == nil {
			panic("toStarlark: no iterator view " + v.M)
		}
		r, err := starlark.Call(thread, m, nil, nil)
		if err != nil {
			panic(err)
		}
		return r
	case "range":
		r, err := starlark.Call(thread, prelude["mkrange"], starlark.Tuple{starlark.MakeInt64(v.R[0]), starlark.MakeInt64(v.R[1]), starlark.MakeInt64(v.R[2])}, nil)
		if err != nil {
			panic(err)
		}
		return r
	}
	panic("toStarlark: " + v.T)
}

// fromStarlark projects a result; a range result is projected to the list of its elements.
func fromStarlark(x starlark.Value) V {
	if x == nil {
		// a nil element: no operation may return or leave one behind
		return V{T: "nil"}
	}
	switch x := x.(type) {
	case starlark.NoneType:
		return vNone()
	case starlark.Bool:
		return vBool(bool(x))
	case starlark.Int:
		return vBig(x.BigInt())
	case starlark.String:
		return vStr(string(x))
	case starlark.Bytes:
		return vBytes(string(x))
	case *starlark.List:
		l := make([]V, x.Len())
		for i := range l {
			l[i] = fromStarlark(x.Index(i))
		}
		return V{T: "list", L: l}
	case starlark.Tuple:
		l := make([]V, x.Len())
		for i := range l {
			l[i] = fromStarlark(x.Index(i))
		}
		return V{T: "tuple", L: l}
	case starlark.Float:
		return vF(float64(x))
	}
	if x.Type() == "range" {
		it := x.(starlark.Iterable).Iterate()
		defer it.Done()
		var l []V
		var e starlark.Value
		for it.Next(&e) {
			l = append(l, fromStarlark(e))
			if len(l) > 1000 {
				break
			}
		}
		return V{T: "list", L: l}
	}
	return V{T: "float", M: x.Type()}
}

func callSafe(fn starlark.Value, args starlark.Tuple) V { return callSafeKw(fn, args, nil) }

func callSafeKw(fn starlark.Value, args starlark.Tuple, kwargs []starlark.Tuple) (res V) {
	defer func() {
		if e := recover(); e != nil {
			res = V{T: "panic", M: fmt.Sprint(e)}
			// the panic unwound through the interpreter: do not reuse its thread
			thread = &starlark.Thread{Name: "c13"}
		}
	}()
	r, err := starlark.Call(thread, fn, args, kwargs)
	if err != nil {
		return V{T: "err", M: firstLine(err.Error())}
	}
	return fromStarlark(r)
}

func firstLine(s string) string {
	if i := strings.IndexByte(s, '\n'); i >= 0 {
		s = s[:i]
	}
	if len(s) > 120 {
		s = s[:120]
	}
	return s
}

func hasNil(v V) bool {
	if v.T == "nil" {
		return true
	}
	for _, e := range v.L {
		if hasNil(e) {
			return true
		}
	}
	return false
}

// run executes the case against the implementation and fills Obs / After; a nil
// element anywhere inside the returned value (or the receiver afterwards) is
// reported like a panic: no Starlark value may contain one.
func run(c *Case) {
	run1(c)
	if c.Obs.T != "panic" && (hasNil(c.Obs) || (c.After != nil && hasNil(*c.After))) {
		b, _ := json.Marshal(c.Obs)
		c.Obs = V{T: "panic", M: "nil element inside the returned value: " + string(b)}
	}
}

func run1(c *Case) {
	switch c.Op {
	case "slice":
		x := toStarlark(*c.X)
		c.Obs = callSafe(prelude["slice3"], starlark.Tuple{x, toStarlark(c.Args[0]), toStarlark(c.Args[1]), toStarlark(c.Args[2])})
	case "index":
		c.Obs = callSafe(prelude["index1"], starlark.Tuple{toStarlark(*c.X), toStarlark(c.Args[0])})
	case "setindex":
		x := toStarlark(*c.X)
		r := callSafe(prelude["setindex"], starlark.Tuple{x, toStarlark(c.Args[0]), toStarlark(c.Args[1])})
		if r.T == "err" || r.T == "panic" {
			c.Obs = r
		} else {
			c.Obs = vNone()
		}
		a := fromStarlark(x)
		c.After = &a
	case "call":
		x := toStarlark(*c.X)
		args := make(starlark.Tuple, len(c.Args))
		for i, a := range c.Args {
			args[i] = toStarlark(a)
		}
		func() {
			defer func() {
				if e := recover(); e != nil {
					c.Obs = V{T: "panic", M: fmt.Sprint(e)}
				}
			}()
			m, err := x.(starlark.HasAttrs).Attr(c.Name)
			if err != nil || m == nil {
				c.Obs = V{T: "err", M: "no such method"}
				return
			}
			var kwargs []starlark.Tuple
			for i := 0; i+1 < len(c.Kw); i += 2 {
				kwargs = append(kwargs, starlark.Tuple{starlark.String(c.Kw[i].str()), toStarlark(c.Kw[i+1])})
			}
			c.Obs = callSafeKw(m, args, kwargs)
		}()
		if c.X.T == "list" {
			a := fromStarlark(x)
			c.After = &a
		}
	case "builtin":
		args := make(starlark.Tuple, len(c.Args))
		for i, a := range c.Args {
			args[i] = toStarlark(a)
		}
		c.Obs = callSafe(starlark.Universe[c.Name], args)
	case "sort":
		args := make(starlark.Tuple, len(c.Args))
		for i, a := range c.Args {
			args[i] = toStarlark(a)
		}
		var kwargs []starlark.Tuple
		if c.Key != "" {
			kwargs = append(kwargs, starlark.Tuple{starlark.String("key"), prelude["k_"+c.Key]})
		}
		if c.Rev != "" {
			kwargs = append(kwargs, starlark.Tuple{starlark.String("reverse"), starlark.Bool(c.Rev == "true")})
		}
		c.Obs = callSafeKw(starlark.Universe[c.Name], args, kwargs)
	case "alias":
		// Args[0]: the other operand (a list, an int, or a (lo, hi, step) tuple); Key: the mutation
		c.Obs = callSafe(prelude["alias"], starlark.Tuple{starlark.String(c.Name), toStarlark(*c.X), toStarlark(c.Args[0]), starlark.String(c.Key)})
	case "bin":
		fn := prelude["add"]
		if c.Name == "*" {
			fn = prelude["mul"]
		} else if c.Name == "%" {
			fn = prelude["mod"]
		}
		c.Obs = callSafe(fn, starlark.Tuple{toStarlark(*c.X), toStarlark(c.Args[0])})
	default:
		panic("run: " + c.Op)
	}
}

// ---------------------------------------------------------------- output
type sink struct {
	r         *hx.Rand
	total     int
	dist      map[string]int
	gomis     int
	coqEvery  map[string]int // per class: emit every n-th case for Coq
	pyEvery   map[string]int
	seenClass map[string]int
	coqN, pyN int
	panics    int
	forced    int // format / % cases sent to Coq because the Go copy of the specification disagrees
}

func newSink(r *hx.Rand) *sink {
	return &sink{r: r, dist: map[string]int{}, coqEvery: map[string]int{}, pyEvery: map[string]int{}, seenClass: map[string]int{}}
}

func sameV(a, b V) bool {
	if a.T == "err" || b.T == "err" {
		return a.T == b.T
	}
	if a.T != b.T || a.I != b.I || a.B != b.B || a.S != b.S || len(a.L) != len(b.L) {
		return false
	}
	if a.T == "float" && a.float() != b.float() {
		return false
	}
	for i := range a.L {
		if !sameV(a.L[i], b.L[i]) {
			return false
		}
	}
	return true
}

// do runs one case, checks it against the Go oracle and samples it for Coq / CPython.
func (s *sink) do(c Case) {
	run(&c)
	s.total++
	s.dist[c.Class]++
	n := s.seenClass[c.Class]
	s.seenClass[c.Class] = n + 1
	if c.Obs.T == "panic" {
		s.panics++
		c.K = "case"
		hx.Emit(c)
		return
	}
	want, wantAfter, ok := oracle(&c)
	if !ok {
		// no Go copy of the specification for this operation (format, %, sorted, min, max):
		// CPython is the only oracle
		c.K = "py"
		s.pyN++
		hx.Emit(c)
		return
	}
	if ok {
		bad := !sameV(want, c.Obs)
		if !bad && wantAfter != nil && c.After != nil && !sameV(*wantAfter, *c.After) {
			bad = true
		}
		if bad {
			s.gomis++
			c.GM = true
			if s.gomis <= 400 {
				g := c
				g.K = "gomis"
				g.Want = &want
				g.WantA = wantAfter
				hx.Emit(g)
			}
		}
	}
	ce, pe := s.coqEvery[c.Class], s.pyEvery[c.Class]
	if ce == 0 {
		ce = s.coqEvery[""]
	}
	if pe == 0 {
		pe = s.pyEvery[""]
	}
	// deterministic stride with a per-class random phase
	if c.Op == "bin" && c.Name == "%" && c.X.T != "str" {
		ce = 0
	}
	if c.Op == "call" && c.Name == "format" && c.X.T != "str" {
		ce = 0
	}
	if c.Op == "alias" {
		ce = 0 // object identity is outside the value-level Coq model: Go copy of the specification and CPython
	}
	if c.Op == "builtin" && (c.Name == "list" || c.Name == "tuple") {
		ce = 0 // no Coq model: Go copy of the specification and CPython
	}
	if c.Op == "sort" && !sortIntKeys(&c) {
		ce = 0 // the Coq model of sorted / min / max works on integer keys
	}
	// a format / % case on which the Go copy of the specification disagrees is always
	// evaluated in Coq as well (the first 300), whatever the stride
	forced := false
	if c.GM && ce > 0 && s.forced < 300 && ((c.Op == "call" && c.Name == "format") || (c.Op == "bin" && c.Name == "%")) {
		forced = true
		s.forced++
	}
	if ce > 0 && (forced || (n+phase(c.Class, ce))%ce == 0) {
		c.K = "case"
		s.coqN++
		if c.Op == "bin" && c.Name == "%" {
			if !observeInterpTexts(&c) {
				c.K = "py"
				s.coqN--
				s.pyN++
			}
		}
		if c.Op == "call" && c.Name == "format" {
			if !observeTexts(&c) {
				ce = 0
				c.K = "py" // a value whose str / repr could not be observed: CPython and the Go copy only
				s.coqN--
				s.pyN++
			}
		}
		hx.Emit(c)
	} else if pe > 0 && (n+phase(c.Class, pe))%pe == 0 {
		c.K = "py"
		s.pyN++
		hx.Emit(c)
	}
}

// observeTexts records, for every argument of a format call (positional, then
// keyword values), the text of str(v) and of repr(v) as the interpreter's value
// printer produces them: repr(v) is Value.String(); str(v) is, as doc/spec.md
// defines it, v itself for a string and repr(v) for everything else.  (The
// built-in function str additionally decodes a bytes value -- str(b"by") is
// "by" -- which spec.md's definition of str does not say; how values print is
// property C15's subject, so the texts are taken from the printer, not from
// string_format, and are parameters of the Coq model and specification.)
func observeTexts(c *Case) (ok bool) {
	defer func() {
		if e := recover(); e != nil {
			c.Texts, ok = nil, false
		}
	}()
	var vals []V
	vals = append(vals, c.Args...)
	for i := 1; i < len(c.Kw); i += 2 {
		vals = append(vals, c.Kw[i])
	}
	c.Texts = []string{}
	for _, v := range vals {
		sv := toStarlark(v)
		repr := sv.String()
		str := repr
		if t, isStr := starlark.AsString(sv); isStr {
			str = t
		}
		c.Texts = append(c.Texts, hex.EncodeToString([]byte(str)), hex.EncodeToString([]byte(repr)))
	}
	return true
}

// valueLetters: the conversions of % whose output depends on number / character formatting.
const valueLetters = "dioxXefgEFGc"

// observeInterpTexts records, for every value the right operand of % offers, its
// str / repr texts (value printer, as observeTexts) and the output of each
// single value-dependent conversion "%d" % (v,) ... "%c" % (v,) -- number and
// character formatting are not C13's subject; the Coq model and specification
// of interpolate take these texts as parameters and are checked on how a whole
// template is scanned and its operands are selected and counted.
func observeInterpTexts(c *Case) (ok bool) {
	defer func() {
		if e := recover(); e != nil {
			c.ITexts, ok = nil, false
		}
	}()
	x := c.Args[0]
	var vals []V
	switch x.T {
	case "tuple":
		vals = x.L
	case "dict":
		vals = append(vals, x)
		for i := 1; i < len(x.L); i += 2 {
			if x.L[i-1].T != "str" {
				return false
			}
			vals = append(vals, x.L[i])
		}
	default:
		vals = []V{x}
	}
	c.ITexts = []string{}
	for _, v := range vals {
		sv := toStarlark(v)
		repr := sv.String()
		str := repr
		if t, isStr := starlark.AsString(sv); isStr {
			str = t
		}
		c.ITexts = append(c.ITexts, hex.EncodeToString([]byte(str)), hex.EncodeToString([]byte(repr)))
		for i := 0; i < len(valueLetters); i++ {
			r := callSafe(prelude["mod"], starlark.Tuple{starlark.String("%" + valueLetters[i:i+1]), starlark.Tuple{toStarlark(v)}})
			switch r.T {
			case "str":
				c.ITexts = append(c.ITexts, r.S)
			case "err":
				c.ITexts = append(c.ITexts, "!")
			default:
				c.ITexts = nil
				return false
			}
		}
	}
	return true
}

var phaseSeed uint64

func phase(class string, n int) int {
	h := phaseSeed
	for i := 0; i < len(class); i++ {
		h = (h ^ uint64(class[i])) * 1099511628211
	}
	return int(h % uint64(n))
}

func main() {
	seed := flag.Uint64("seed", 1, "")
	tier := flag.String("tier", "quick", "quick | thorough")
	mode := flag.String("mode", "main", "main | risky (child process for cases that may kill the process)")
	from := flag.Int("from", 0, "risky mode: first case index")
	flag.Parse()
	phaseSeed = *seed*0x9E3779B97F4A7C15 + 77
	r := hx.NewRand(*seed)
	quick := *tier == "quick"
	if *mode == "risky" {
		riskyChild(quick, *from)
		return
	}
	debug.SetGCPercent(800)
	s := newSink(r)
	t0 := time.Now()
	lap := func(what string) {
		fmt.Fprintf(os.Stderr, "c13: %-12s %8d cases so far, %.1fs\n", what, s.total, time.Since(t0).Seconds())
	}
	genIndexSlice(s, quick)
	lap("index/slice")
	genMethods(s, quick)
	lap("methods")
	genSeq(s, quick)
	lap("seq")
	genRandom(s, quick)
	lap("random")
	genPyOnly(s, quick)
	lap("cpython-only")
	genSort(s, quick)
	lap("sort")
	genIterables(s, quick)
	lap("iterables")
	genFormat(s, quick)
	lap("format")
	genAlias(s, quick)
	lap("alias")
	riskyParent(s, quick, *seed)
	lap("risky")
	type kv struct {
		K string `json:"class"`
		N int    `json:"n"`
	}
	var d []kv
	for k, n := range s.dist {
		d = append(d, kv{k, n})
	}
	sort.Slice(d, func(i, j int) bool { return d[i].K < d[j].K })
	hx.Emit(map[string]any{"k": "stats", "total": s.total, "gomis": s.gomis, "coq": s.coqN, "py": s.pyN, "panics": s.panics, "dist": d})
	hx.Flush()
}

// ---------------------------------------------------------------- risky cases
// Calls with huge counts may exhaust memory or die with a fatal error that
// recover() cannot intercept; they run in a child process, one line per case.
func riskyCases(quick bool) []Case {
	var out []Case
	huge := []V{vInt(1 << 31), vInt(1<<31 - 1), vInt(1 << 32), vBig(new(big.Int).Lsh(big.NewInt(1), 62)), vBig(new(big.Int).Sub(new(big.Int).Lsh(big.NewInt(1), 63), big.NewInt(1))),
		vInt(-(1 << 31)), vBig(new(big.Int).Neg(new(big.Int).Lsh(big.NewInt(1), 62))), vBig(new(big.Int).Neg(new(big.Int).Lsh(big.NewInt(1), 63))),
		vBig(new(big.Int).Lsh(big.NewInt(1), 63)), vBig(new(big.Int).Lsh(big.NewInt(1), 100))}
	recvs := []string{"", "a b", " a  b c ", "aXbXc", "aaa"}
	for _, h := range huge {
		for _, rs := range recvs {
			x := vStr(rs)
			for _, m := range []string{"split", "rsplit"} {
				out = append(out, Case{Op: "call", Kind: "string", X: &x, Name: m, Args: []V{vNone(), h}, Class: "huge:" + m + ":ws"})
				out = append(out, Case{Op: "call", Kind: "string", X: &x, Name: m, Args: []V{vStr("X"), h}, Class: "huge:" + m + ":sep"})
				out = append(out, Case{Op: "call", Kind: "string", X: &x, Name: m, Args: []V{vStr("aa"), h}, Class: "huge:" + m + ":sep"})
			}
			out = append(out, Case{Op: "call", Kind: "string", X: &x, Name: "replace", Args: []V{vStr("a"), vStr("bb"), h}, Class: "huge:replace"})
			out = append(out, Case{Op: "call", Kind: "string", X: &x, Name: "replace", Args: []V{vStr(""), vStr("-"), h}, Class: "huge:replace"})
			for _, m := range []string{"find", "rfind", "count", "index", "startswith", "endswith"} {
				out = append(out, Case{Op: "call", Kind: "string", X: &x, Name: m, Args: []V{vStr("a"), h}, Class: "huge:" + m})
				out = append(out, Case{Op: "call", Kind: "string", X: &x, Name: m, Args: []V{vStr(""), vNone(), h}, Class: "huge:" + m})
			}
			for _, kind := range []string{"string", "bytes", "list", "tuple"} {
				y := mkSeq(kind, []byte(rs))
				out = append(out, Case{Op: "bin", Kind: kind, X: &y, Name: "*", Args: []V{h}, Class: "huge:*"})
				out = append(out, Case{Op: "bin", Kind: kind, X: &h, Name: "*", Args: []V{y}, Class: "huge:*"})
				out = append(out, Case{Op: "slice", Kind: kind, X: &y, Args: []V{h, vNone(), vNone()}, Class: "huge:slice"})
				out = append(out, Case{Op: "slice", Kind: kind, X: &y, Args: []V{vNone(), h, vNone()}, Class: "huge:slice"})
				out = append(out, Case{Op: "slice", Kind: kind, X: &y, Args: []V{vNone(), vNone(), h}, Class: "huge:slice"})
				out = append(out, Case{Op: "slice", Kind: kind, X: &y, Args: []V{h, vInt(1), vInt(-1)}, Class: "huge:slice"})
				out = append(out, Case{Op: "index", Kind: kind, X: &y, Args: []V{h}, Class: "huge:index"})
			}
			l := mkSeq("list", []byte(rs))
			out = append(out, Case{Op: "call", Kind: "list", X: &l, Name: "insert", Args: []V{h, vInt(7)}, Class: "huge:insert"})
			out = append(out, Case{Op: "call", Kind: "list", X: &l, Name: "pop", Args: []V{h}, Class: "huge:pop"})
			out = append(out, Case{Op: "call", Kind: "list", X: &l, Name: "index", Args: []V{vInt(0), h}, Class: "huge:list.index"})
			out = append(out, Case{Op: "call", Kind: "list", X: &l, Name: "index", Args: []V{vInt(0), vNone(), h}, Class: "huge:list.index"})
			out = append(out, Case{Op: "builtin", Name: "enumerate", Args: []V{l, h}, Class: "huge:enumerate"})
		}
	}
	_ = quick
	return out
}

func riskyChild(quick bool, from int) {
	// fail fast instead of swapping when a call tries to allocate tens of gigabytes
	lim := syscall.Rlimit{Cur: 6 << 30, Max: 6 << 30}
	syscall.Setrlimit(syscall.RLIMIT_AS, &lim)
	cs := riskyCases(quick)
	w := bufio.NewWriter(os.Stdout)
	for i := from; i < len(cs); i++ {
		fmt.Fprintf(w, "START %d\n", i)
		w.Flush()
		c := cs[i]
		run(&c)
		b, _ := json.Marshal(c)
		fmt.Fprintf(w, "DONE %d %s\n", i, b)
		w.Flush()
	}
}

func riskyParent(s *sink, quick bool, seed uint64) {
	cs := riskyCases(quick)
	from := 0
	for from < len(cs) {
		args := []string{"-mode", "risky", "-from", strconv.Itoa(from), "-seed", strconv.FormatUint(seed, 10)}
		if !quick {
			args = append(args, "-tier", "thorough")
		}
		cmd := exec.Command(os.Args[0], args...)
		cmd.Env = append(os.Environ(), "GOMEMLIMIT=2GiB")
		out, _ := cmd.StdoutPipe()
		cmd.Stderr = nil
		if err := cmd.Start(); err != nil {
			panic(err)
		}
		timer := time.AfterFunc(60*time.Second, func() { cmd.Process.Kill() })
		sc := bufio.NewScanner(out)
		sc.Buffer(make([]byte, 1<<20), 1<<26)
		started, done := -1, -1
		for sc.Scan() {
			line := sc.Text()
			if strings.HasPrefix(line, "START ") {
				started, _ = strconv.Atoi(line[6:])
			} else if strings.HasPrefix(line, "DONE ") {
				rest := line[5:]
				sp := strings.IndexByte(rest, ' ')
				done, _ = strconv.Atoi(rest[:sp])
				var c Case
				if err := json.Unmarshal([]byte(rest[sp+1:]), &c); err != nil {
					panic(err)
				}
				s.total++
				s.dist[c.Class]++
				if want, wantAfter, ok := oracle(&c); ok && c.Obs.T != "panic" {
					if !sameV(want, c.Obs) || (wantAfter != nil && c.After != nil && !sameV(*wantAfter, *c.After)) {
						s.gomis++
						c.GM = true
						g := c
						g.K = "gomis"
						g.Want = &want
						g.WantA = wantAfter
						hx.Emit(g)
					}
				}
				if c.Obs.T == "panic" || c.GM || done%3 == 0 {
					c.K = "case"
					s.coqN++
				} else {
					c.K = "py"
					s.pyN++
				}
				hx.Emit(c)
			}
		}
		cmd.Wait()
		timer.Stop()
		if done == len(cs)-1 {
			break
		}
		if started > done {
			c := cs[started]
			c.K = "crash"
			c.Obs = V{T: "panic", M: "child process died (fatal error or timeout)"}
			s.total++
			s.dist[c.Class]++
			hx.Emit(c)
			from = started + 1
		} else {
			from = done + 1
		}
	}
}
