package main

// oracle.go: the specification (coq/C13/Spec.v) re-implemented naively in Go,
// for volume.  Written from doc/spec.md / the Python reference semantics with
// plain loops over byte slices and math/big -- no use of package strings, of
// the interpreter's helpers, or of Go slicing shortcuts that mirror the
// implementation.  oracle returns ok=false when it has no opinion on a case.

import (
	"fmt"
	"math/big"
)

var errV = V{T: "err"}

func isNoneV(v V) bool { return v.T == "none" }

// intOrNone: (value, isNone, ok)
func intOrNone(v V) (*big.Int, bool, bool) {
	switch v.T {
	case "none":
		return nil, true, true
	case "int":
		return v.big(), false, true
	}
	return nil, false, false
}

func clampBig(z *big.Int, lo, hi int) int {
	if z.Cmp(big.NewInt(int64(lo))) < 0 {
		return lo
	}
	if z.Cmp(big.NewInt(int64(hi))) > 0 {
		return hi
	}
	return int(z.Int64())
}

// adjust one slice bound the Python way
func adjustBound(n, lower, upper, dflt int, v *big.Int, none bool) int {
	if none {
		return dflt
	}
	z := new(big.Int).Set(v)
	if z.Sign() < 0 {
		z.Add(z, big.NewInt(int64(n)))
	}
	return clampBig(z, lower, upper)
}

// sliceIndices returns the selected positions of a[lo:hi:step] for len(a) = n.
func sliceIndices(n int, lo, hi, st V) ([]int, bool) {
	lz, ln, ok1 := intOrNone(lo)
	hz, hn, ok2 := intOrNone(hi)
	sz, sn, ok3 := intOrNone(st)
	if !ok1 || !ok2 || !ok3 {
		return nil, false
	}
	step := big.NewInt(1)
	if !sn {
		step = sz
	}
	if step.Sign() == 0 {
		return nil, false
	}
	var out []int
	if step.Sign() > 0 {
		start := adjustBound(n, 0, n, 0, lz, ln)
		stop := adjustBound(n, 0, n, n, hz, hn)
		for i := big.NewInt(int64(start)); i.Cmp(big.NewInt(int64(stop))) < 0; i = new(big.Int).Add(i, step) {
			out = append(out, int(i.Int64()))
		}
	} else {
		start := adjustBound(n, -1, n-1, n-1, lz, ln)
		stop := adjustBound(n, -1, n-1, -1, hz, hn)
		for i := big.NewInt(int64(start)); i.Cmp(big.NewInt(int64(stop))) > 0; i = new(big.Int).Add(i, step) {
			out = append(out, int(i.Int64()))
		}
	}
	return out, true
}

// subrange: effective [a, b) of S[start:end], a <= b
func subrange(n int, args []V, at int) (int, int, bool) {
	lo, hi := vNone(), vNone()
	if len(args) > at {
		lo = args[at]
	}
	if len(args) > at+1 {
		hi = args[at+1]
	}
	lz, ln, ok1 := intOrNone(lo)
	hz, hn, ok2 := intOrNone(hi)
	if !ok1 || !ok2 {
		return 0, 0, false
	}
	a := adjustBound(n, 0, n, 0, lz, ln)
	b := adjustBound(n, 0, n, n, hz, hn)
	if b < a {
		b = a
	}
	return a, b, true
}

func seqLen(x V) int {
	switch x.T {
	case "str", "bytes":
		return len(x.S) / 2
	case "list", "tuple":
		return len(x.L)
	case "range":
		return len(rangeElems(x))
	}
	return -1
}

func rangeElems(x V) []V {
	var out []V
	a, b, c := x.R[0], x.R[1], x.R[2]
	for i := a; (c > 0 && i < b) || (c < 0 && i > b); i += c {
		out = append(out, vInt(i))
	}
	return out
}

func pickSeq(x V, idx []int) V {
	switch x.T {
	case "str", "bytes":
		s := x.str()
		b := make([]byte, 0, len(idx))
		for _, i := range idx {
			b = append(b, s[i])
		}
		if x.T == "str" {
			return vStr(string(b))
		}
		return vBytes(string(b))
	case "list", "tuple":
		l := make([]V, 0, len(idx))
		for _, i := range idx {
			l = append(l, x.L[i])
		}
		return V{T: x.T, L: l}
	case "range":
		el := rangeElems(x)
		l := make([]V, 0, len(idx))
		for _, i := range idx {
			l = append(l, el[i])
		}
		return V{T: "list", L: l}
	}
	return errV
}

func elemAt(x V, i int) V {
	switch x.T {
	case "str":
		return vStr(x.str()[i : i+1])
	case "bytes":
		return vBytes(x.str()[i : i+1])
	case "list", "tuple":
		return x.L[i]
	case "range":
		return rangeElems(x)[i]
	}
	return errV
}

// normIndex: a[i]
func normIndex(n int, i V) (int, bool) {
	if i.T != "int" {
		return 0, false
	}
	z := i.big()
	if z.Cmp(big.NewInt(int64(-n))) < 0 || z.Cmp(big.NewInt(int64(n))) >= 0 {
		return 0, false
	}
	k := int(z.Int64())
	if k < 0 {
		k += n
	}
	return k, true
}

func eqBytes(a, b []byte) bool {
	if len(a) != len(b) {
		return false
	}
	for i := range a {
		if a[i] != b[i] {
			return false
		}
	}
	return true
}

func occursAt(s, sub []byte, i int) bool {
	return i+len(sub) <= len(s) && eqBytes(s[i:i+len(sub)], sub)
}

func findFirst(s, sub []byte) int {
	for i := 0; i+len(sub) <= len(s); i++ {
		if occursAt(s, sub, i) {
			return i
		}
	}
	return -1
}

func findLast(s, sub []byte) int {
	for i := len(s) - len(sub); i >= 0; i-- {
		if occursAt(s, sub, i) {
			return i
		}
	}
	return -1
}

// occurrences: leftmost non-overlapping, sub non-empty
func occurrences(s, sub []byte) []int {
	var out []int
	for i := 0; i+len(sub) <= len(s); {
		if occursAt(s, sub, i) {
			out = append(out, i)
			i += len(sub)
		} else {
			i++
		}
	}
	return out
}

func reverseBytes(s []byte) []byte {
	out := make([]byte, len(s))
	for i, c := range s {
		out[len(s)-1-i] = c
	}
	return out
}

// limit from a count argument: (-1 = none), ok
func countArg(args []V, at int) (int, bool) {
	if len(args) <= at {
		return -1, true
	}
	if args[at].T != "int" {
		return 0, false
	}
	z := args[at].big()
	if !z.IsInt64() {
		return 0, false
	}
	if z.Sign() < 0 {
		return -1, true
	}
	if z.Cmp(big.NewInt(1<<40)) > 0 {
		return 1 << 40, true
	}
	return int(z.Int64()), true
}

func splitSpec(s, sep []byte, k int) [][]byte {
	occ := occurrences(s, sep)
	if k >= 0 && len(occ) > k {
		occ = occ[:k]
	}
	var out [][]byte
	from := 0
	for _, i := range occ {
		out = append(out, s[from:i])
		from = i + len(sep)
	}
	return append(out, s[from:])
}

func rsplitSpec(s, sep []byte, k int) [][]byte {
	parts := splitSpec(reverseBytes(s), reverseBytes(sep), k)
	out := make([][]byte, len(parts))
	for i, p := range parts {
		out[len(parts)-1-i] = reverseBytes(p)
	}
	return out
}

func isWS(c byte) bool { return c == ' ' || c == '\t' || c == '\n' || c == '\v' || c == '\f' || c == '\r' }

func wsplitSpec(s []byte, k int) [][]byte {
	var out [][]byte
	i := 0
	for {
		for i < len(s) && isWS(s[i]) {
			i++
		}
		if i == len(s) {
			return out
		}
		if k >= 0 && len(out) == k {
			return append(out, s[i:])
		}
		j := i
		for j < len(s) && !isWS(s[j]) {
			j++
		}
		out = append(out, s[i:j])
		i = j
	}
}

func rwsplitSpec(s []byte, k int) [][]byte {
	parts := wsplitSpec(reverseBytes(s), k)
	out := make([][]byte, len(parts))
	for i, p := range parts {
		out[len(parts)-1-i] = reverseBytes(p)
	}
	return out
}

func strList(parts [][]byte) V {
	l := make([]V, len(parts))
	for i, p := range parts {
		l[i] = vStr(string(p))
	}
	return V{T: "list", L: l}
}

func member(set []byte, c byte) bool {
	for _, d := range set {
		if c == d {
			return true
		}
	}
	return false
}

func isUp(c byte) bool    { return 'A' <= c && c <= 'Z' }
func isLow(c byte) bool   { return 'a' <= c && c <= 'z' }
func isCased(c byte) bool { return isUp(c) || isLow(c) }
func isDig(c byte) bool   { return '0' <= c && c <= '9' }
func upc(c byte) byte {
	if isLow(c) {
		return c - 32
	}
	return c
}
func downc(c byte) byte {
	if isUp(c) {
		return c + 32
	}
	return c
}

func allBytes(s []byte, p func(byte) bool) bool {
	if len(s) == 0 {
		return false
	}
	for _, c := range s {
		if !p(c) {
			return false
		}
	}
	return true
}

func valEq(a, b V) bool {
	if a.T != b.T {
		return false
	}
	switch a.T {
	case "none":
		return true
	case "bool":
		return a.B == b.B
	case "int":
		return a.big().Cmp(b.big()) == 0
	case "str", "bytes":
		return a.S == b.S
	case "list", "tuple":
		if len(a.L) != len(b.L) {
			return false
		}
		for i := range a.L {
			if !valEq(a.L[i], b.L[i]) {
				return false
			}
		}
		return true
	}
	return false
}

func truthV(v V) bool {
	switch v.T {
	case "none":
		return false
	case "bool":
		return v.B
	case "int":
		return v.big().Sign() != 0
	case "str", "bytes":
		return len(v.S) > 0
	case "list", "tuple":
		return len(v.L) > 0
	}
	return true
}

func iterElems(v V) ([]V, bool) {
	switch v.T {
	case "list", "tuple":
		return v.L, true
	case "range":
		return rangeElems(v), true
	case "iter":
		// the iterator views of a string / bytes (ASCII: bytes = code points)
		b := []byte(v.str())
		out := make([]V, len(b))
		for i, c := range b {
			switch v.M {
			case "codepoints", "elems":
				out[i] = vStr(string([]byte{c}))
			default: // codepoint_ords, elem_ords, belems
				out[i] = vInt(int64(c))
			}
		}
		return out, true
	}
	return nil, false
}

func stringMethod(name string, s []byte, args []V) (V, bool) {
	wantStr := func(i int) ([]byte, bool) {
		if len(args) <= i || args[i].T != "str" {
			return nil, false
		}
		return []byte(args[i].str()), true
	}
	switch name {
	case "find", "rfind", "index", "rindex", "count":
		sub, ok := wantStr(0)
		if !ok || len(args) > 3 {
			return errV, true
		}
		a, b, ok := subrange(len(s), args, 1)
		if !ok {
			return errV, true
		}
		t := s[a:b]
		if name == "count" {
			if len(sub) == 0 {
				return vInt(int64(len(t) + 1)), true
			}
			return vInt(int64(len(occurrences(t, sub)))), true
		}
		var i int
		if name[0] == 'r' {
			i = findLast(t, sub)
		} else {
			i = findFirst(t, sub)
		}
		if i < 0 {
			if name == "index" || name == "rindex" {
				return errV, true
			}
			return vInt(-1), true
		}
		return vInt(int64(a + i)), true
	case "startswith", "endswith":
		if len(args) < 1 || len(args) > 3 {
			return errV, true
		}
		a, b, ok := subrange(len(s), args, 1)
		if !ok {
			return errV, true
		}
		t := s[a:b]
		test := func(p []byte) bool {
			if len(p) > len(t) {
				return false
			}
			if name == "startswith" {
				return eqBytes(t[:len(p)], p)
			}
			return eqBytes(t[len(t)-len(p):], p)
		}
		switch args[0].T {
		case "str":
			return vBool(test([]byte(args[0].str()))), true
		case "tuple":
			for _, e := range args[0].L {
				if e.T != "str" {
					return errV, true
				}
				if test([]byte(e.str())) {
					return vBool(true), true
				}
			}
			return vBool(false), true
		}
		return errV, true
	case "split", "rsplit":
		if len(args) > 2 {
			return errV, true
		}
		k, ok := countArg(args, 1)
		if !ok {
			return errV, true
		}
		if len(args) == 0 || args[0].T == "none" {
			if name == "split" {
				return strList(wsplitSpec(s, k)), true
			}
			return strList(rwsplitSpec(s, k)), true
		}
		sep, ok := wantStr(0)
		if !ok || len(sep) == 0 {
			return errV, true
		}
		if name == "split" {
			return strList(splitSpec(s, sep, k)), true
		}
		return strList(rsplitSpec(s, sep, k)), true
	case "splitlines":
		keep := false
		if len(args) > 1 {
			return errV, true
		}
		if len(args) == 1 {
			if args[0].T != "bool" {
				return errV, true
			}
			keep = args[0].B
		}
		var out [][]byte
		from := 0
		for i, c := range s {
			if c == '\n' {
				if keep {
					out = append(out, s[from:i+1])
				} else {
					out = append(out, s[from:i])
				}
				from = i + 1
			}
		}
		if from < len(s) {
			out = append(out, s[from:])
		}
		return strList(out), true
	case "partition", "rpartition":
		sep, ok := wantStr(0)
		if !ok || len(args) != 1 || len(sep) == 0 {
			return errV, true
		}
		if name == "partition" {
			if i := findFirst(s, sep); i >= 0 {
				return vTuple(vStr(string(s[:i])), vStr(string(sep)), vStr(string(s[i+len(sep):]))), true
			}
			return vTuple(vStr(string(s)), vStr(""), vStr("")), true
		}
		if i := findLast(s, sep); i >= 0 {
			return vTuple(vStr(string(s[:i])), vStr(string(sep)), vStr(string(s[i+len(sep):]))), true
		}
		return vTuple(vStr(""), vStr(""), vStr(string(s))), true
	case "strip", "lstrip", "rstrip":
		if len(args) > 1 {
			return errV, true
		}
		p := isWS
		if len(args) == 1 {
			set, ok := wantStr(0)
			if !ok {
				return errV, true
			}
			p = func(c byte) bool { return member(set, c) }
		}
		a, b := 0, len(s)
		if name != "rstrip" {
			for a < b && p(s[a]) {
				a++
			}
		}
		if name != "lstrip" {
			for b > a && p(s[b-1]) {
				b--
			}
		}
		return vStr(string(s[a:b])), true
	case "replace":
		old, ok1 := wantStr(0)
		nw, ok2 := wantStr(1)
		if !ok1 || !ok2 || len(args) > 3 {
			return errV, true
		}
		k, ok := countArg(args, 2)
		if !ok {
			return errV, true
		}
		var out []byte
		if len(old) == 0 {
			done := 0
			for i := 0; i <= len(s); i++ {
				if k < 0 || done < k {
					out = append(out, nw...)
					done++
				}
				if i < len(s) {
					out = append(out, s[i])
				}
			}
			return vStr(string(out)), true
		}
		parts := splitSpec(s, old, k)
		for i, p := range parts {
			if i > 0 {
				out = append(out, nw...)
			}
			out = append(out, p...)
		}
		return vStr(string(out)), true
	case "join":
		if len(args) != 1 {
			return errV, true
		}
		el, ok := iterElems(args[0])
		if !ok {
			return errV, true
		}
		var out []byte
		for i, e := range el {
			if e.T != "str" {
				return errV, true
			}
			if i > 0 {
				out = append(out, s...)
			}
			out = append(out, e.str()...)
		}
		return vStr(string(out)), true
	case "removeprefix", "removesuffix":
		p, ok := wantStr(0)
		if !ok || len(args) != 1 {
			return errV, true
		}
		if len(p) <= len(s) {
			if name == "removeprefix" && eqBytes(s[:len(p)], p) {
				return vStr(string(s[len(p):])), true
			}
			if name == "removesuffix" && eqBytes(s[len(s)-len(p):], p) {
				return vStr(string(s[:len(s)-len(p)])), true
			}
		}
		return vStr(string(s)), true
	}
	// no-argument methods
	if len(args) != 0 {
		return errV, true
	}
	out := make([]byte, len(s))
	switch name {
	case "upper":
		for i, c := range s {
			out[i] = upc(c)
		}
		return vStr(string(out)), true
	case "lower":
		for i, c := range s {
			out[i] = downc(c)
		}
		return vStr(string(out)), true
	case "capitalize":
		for i, c := range s {
			if i == 0 {
				out[i] = upc(c)
			} else {
				out[i] = downc(c)
			}
		}
		return vStr(string(out)), true
	case "title":
		prev := false
		for i, c := range s {
			if isCased(c) {
				if prev {
					out[i] = downc(c)
				} else {
					out[i] = upc(c)
				}
			} else {
				out[i] = c
			}
			prev = isCased(c)
		}
		return vStr(string(out)), true
	case "isalnum":
		return vBool(allBytes(s, func(c byte) bool { return isCased(c) || isDig(c) })), true
	case "isalpha":
		return vBool(allBytes(s, isCased)), true
	case "isdigit":
		return vBool(allBytes(s, isDig)), true
	case "isspace":
		return vBool(allBytes(s, isWS)), true
	case "islower", "isupper":
		cased, bad := false, false
		for _, c := range s {
			if isCased(c) {
				cased = true
			}
			if (name == "islower" && isUp(c)) || (name == "isupper" && isLow(c)) {
				bad = true
			}
		}
		return vBool(cased && !bad), true
	case "istitle":
		cased, prev, okk := false, false, true
		for _, c := range s {
			if isCased(c) {
				cased = true
				if isUp(c) == prev {
					okk = false
				}
			}
			prev = isCased(c)
		}
		return vBool(cased && okk), true
	}
	return errV, false
}

func listMethod(name string, xs []V, args []V) (V, *V, bool) {
	after := func(l []V) *V { v := V{T: "list", L: l}; return &v }
	same := after(xs)
	n := len(xs)
	switch name {
	case "append":
		if len(args) != 1 {
			return errV, same, true
		}
		return vNone(), after(append(append([]V{}, xs...), args[0])), true
	case "clear":
		if len(args) != 0 {
			return errV, same, true
		}
		return vNone(), after(nil), true
	case "extend":
		if len(args) != 1 {
			return errV, same, true
		}
		el, ok := iterElems(args[0])
		if !ok {
			return errV, same, true
		}
		return vNone(), after(append(append([]V{}, xs...), el...)), true
	case "index":
		if len(args) < 1 || len(args) > 3 {
			return errV, same, true
		}
		a, b, ok := subrange(n, args, 1)
		if !ok {
			return errV, same, true
		}
		for i := a; i < b; i++ {
			if valEq(xs[i], args[0]) {
				return vInt(int64(i)), same, true
			}
		}
		return errV, same, true
	case "insert":
		if len(args) != 2 || args[0].T != "int" || !args[0].big().IsInt64() {
			return errV, same, true
		}
		z := args[0].big()
		if z.Sign() < 0 {
			z.Add(z, big.NewInt(int64(n)))
		}
		p := clampBig(z, 0, n)
		out := append([]V{}, xs[:p]...)
		out = append(out, args[1])
		out = append(out, xs[p:]...)
		return vNone(), after(out), true
	case "pop":
		if len(args) > 1 {
			return errV, same, true
		}
		i := vInt(-1)
		if len(args) == 1 {
			i = args[0]
		}
		k, ok := normIndex(n, i)
		if !ok {
			return errV, same, true
		}
		out := append([]V{}, xs[:k]...)
		out = append(out, xs[k+1:]...)
		return xs[k], after(out), true
	case "remove":
		if len(args) != 1 {
			return errV, same, true
		}
		for i := range xs {
			if valEq(xs[i], args[0]) {
				out := append([]V{}, xs[:i]...)
				out = append(out, xs[i+1:]...)
				return vNone(), after(out), true
			}
		}
		return errV, same, true
	}
	return errV, nil, false
}

func builtinSpec(name string, args []V) (V, bool) {
	switch name {
	case "list", "tuple":
		if len(args) > 1 {
			return errV, true
		}
		var el []V
		if len(args) == 1 {
			e, ok := iterElems(args[0])
			if !ok {
				return errV, true
			}
			el = e
		}
		return V{T: name, L: append([]V{}, el...)}, true
	case "reversed", "any", "all":
		if len(args) != 1 {
			return errV, true
		}
		el, ok := iterElems(args[0])
		if !ok {
			return errV, true
		}
		switch name {
		case "reversed":
			out := make([]V, len(el))
			for i, e := range el {
				out[len(el)-1-i] = e
			}
			return V{T: "list", L: out}, true
		case "any":
			for _, e := range el {
				if truthV(e) {
					return vBool(true), true
				}
			}
			return vBool(false), true
		default:
			for _, e := range el {
				if !truthV(e) {
					return vBool(false), true
				}
			}
			return vBool(true), true
		}
	case "enumerate":
		if len(args) < 1 || len(args) > 2 {
			return errV, true
		}
		start := big.NewInt(0)
		if len(args) == 2 {
			if args[1].T != "int" || !args[1].big().IsInt64() {
				return errV, true
			}
			start = args[1].big()
		}
		el, ok := iterElems(args[0])
		if !ok {
			return errV, true
		}
		out := make([]V, len(el))
		for i, e := range el {
			out[i] = vTuple(vBig(new(big.Int).Add(start, big.NewInt(int64(i)))), e)
		}
		return V{T: "list", L: out}, true
	case "zip":
		var cols [][]V
		for _, a := range args {
			el, ok := iterElems(a)
			if !ok {
				return errV, true
			}
			cols = append(cols, el)
		}
		var out []V
		if len(cols) == 0 {
			return V{T: "list"}, true
		}
		for i := 0; ; i++ {
			row := make([]V, len(cols))
			for j, c := range cols {
				if i >= len(c) {
					return V{T: "list", L: out}, true
				}
				row[j] = c[i]
			}
			out = append(out, V{T: "tuple", L: row})
		}
	}
	return errV, false
}

func repeatSpec(x V, nv V) V {
	if nv.T != "int" {
		return errV
	}
	n := nv.big()
	ln := seqLen(x)
	empty := V{T: x.T}
	if n.Sign() <= 0 || ln == 0 {
		return empty
	}
	if new(big.Int).Mul(n, big.NewInt(int64(ln))).Cmp(big.NewInt(1<<30)) >= 0 {
		return errV
	}
	k := int(n.Int64())
	switch x.T {
	case "str", "bytes":
		var out []byte
		for i := 0; i < k; i++ {
			out = append(out, x.str()...)
		}
		if x.T == "str" {
			return vStr(string(out))
		}
		return vBytes(string(out))
	default:
		var out []V
		for i := 0; i < k; i++ {
			out = append(out, x.L...)
		}
		return V{T: x.T, L: out}
	}
}

func isSeq(v V) bool { return v.T == "str" || v.T == "bytes" || v.T == "list" || v.T == "tuple" }

// ---- ordering, sorted, min, max (spec.md "Comparisons", "sorted", "min", "max")

var errUnordered = fmt.Errorf("values are not ordered")

// numeric value of an int or float operand
func numOf(v V) (*big.Float, bool) {
	switch v.T {
	case "int":
		return new(big.Float).SetInt(v.big()), true
	case "float":
		return big.NewFloat(v.float()), true
	}
	return nil, false
}

// valEqNum: equality as the language defines it (1 == 1.0)
func valEqNum(a, b V) bool {
	if x, ok := numOf(a); ok {
		if y, ok := numOf(b); ok {
			return x.Cmp(y) == 0
		}
		return false
	}
	if a.T != b.T {
		return false
	}
	if a.T == "list" || a.T == "tuple" {
		if len(a.L) != len(b.L) {
			return false
		}
		for i := range a.L {
			if !valEqNum(a.L[i], b.L[i]) {
				return false
			}
		}
		return true
	}
	return valEq(a, b)
}

// cmpV: -1, 0, +1, or an error when the two values are not ordered
func cmpV(a, b V) (int, error) {
	if x, ok := numOf(a); ok {
		if y, ok := numOf(b); ok {
			return x.Cmp(y), nil
		}
		return 0, errUnordered
	}
	if a.T != b.T {
		return 0, errUnordered
	}
	switch a.T {
	case "str", "bytes":
		x, y := a.str(), b.str()
		for i := 0; i < len(x) && i < len(y); i++ {
			if x[i] != y[i] {
				if x[i] < y[i] {
					return -1, nil
				}
				return 1, nil
			}
		}
		return sign(len(x) - len(y)), nil
	case "bool":
		return sign(b2i(a.B) - b2i(b.B)), nil
	case "list", "tuple":
		for i := 0; i < len(a.L) && i < len(b.L); i++ {
			if !valEqNum(a.L[i], b.L[i]) {
				return cmpV(a.L[i], b.L[i])
			}
		}
		return sign(len(a.L) - len(b.L)), nil
	}
	return 0, errUnordered // None, ranges ...
}

func sign(x int) int {
	if x < 0 {
		return -1
	}
	if x > 0 {
		return 1
	}
	return 0
}
func b2i(b bool) int {
	if b {
		return 1
	}
	return 0
}

// keyOf applies the named key function of the harness prelude.
func keyOf(name string, v V) (V, error) {
	bad := fmt.Errorf("key function fails")
	switch name {
	case "", "ident":
		return v, nil
	case "len":
		if n := seqLen(v); n >= 0 && v.T != "range" {
			return vInt(int64(n)), nil
		}
		return V{}, bad
	case "zero":
		return vInt(0), nil
	case "mod3":
		if v.T == "int" {
			m := new(big.Int).Mod(v.big(), big.NewInt(3)) // Euclidean = floored for a positive modulus
			return vBig(m), nil
		}
		return V{}, bad
	case "neg":
		if v.T == "int" {
			return vBig(new(big.Int).Neg(v.big())), nil
		}
		if v.T == "float" {
			return vF(-v.float()), nil
		}
		return V{}, bad
	case "first":
		if (v.T == "list" || v.T == "tuple") && len(v.L) > 0 {
			return v.L[0], nil
		}
		if (v.T == "str" || v.T == "bytes") && len(v.S) > 0 {
			return V{T: v.T, S: v.S[:2]}, nil
		}
		return V{}, bad
	case "lower":
		if v.T == "str" {
			b := []byte(v.str())
			for i, c := range b {
				b[i] = downc(c)
			}
			return vStr(string(b)), nil
		}
		return V{}, bad
	case "int":
		switch v.T {
		case "int":
			return v, nil
		case "bool":
			return vInt(int64(b2i(v.B))), nil
		case "float":
			f := v.float()
			if f == float64(int64(f)) {
				return vInt(int64(f)), nil
			}
			if f > 0 {
				return vInt(int64(f)), nil // truncation toward zero
			}
			return vInt(-int64(-f)), nil
		}
		return V{}, bad
	}
	return V{}, bad
}

// sortSpec: sorted / min / max.  sorted is the stable arrangement: element i
// precedes element j iff key_i < key_j (key_i > key_j when reversed), or the keys
// tie and i < j.  min / max return the first element whose key is extremal.
func sortSpec(c *Case) (V, bool) {
	var elems []V
	if c.Name == "sorted" {
		if len(c.Args) != 1 {
			return errV, true
		}
		el, ok := iterElems(c.Args[0])
		if !ok {
			return errV, true
		}
		elems = el
	} else {
		if len(c.Args) == 0 {
			return errV, true
		}
		if len(c.Args) == 1 {
			el, ok := iterElems(c.Args[0])
			if !ok {
				return errV, true
			}
			elems = el
		} else {
			elems = c.Args
		}
		if c.Rev != "" {
			return errV, true // min / max take no reverse= argument
		}
		if len(elems) == 0 {
			return errV, true
		}
	}
	keys := make([]V, len(elems))
	for i, e := range elems {
		k, err := keyOf(c.Key, e)
		if err != nil {
			return errV, true
		}
		keys[i] = k
	}
	// every pair must be ordered (a comparison sort cannot avoid comparing two classes of values)
	for i := range keys {
		for j := i + 1; j < len(keys); j++ {
			if _, err := cmpV(keys[i], keys[j]); err != nil {
				return errV, true
			}
		}
	}
	rev := c.Rev == "true"
	if c.Name == "sorted" {
		out := make([]V, len(elems))
		for i := range elems {
			rank := 0
			for j := range elems {
				k, _ := cmpV(keys[j], keys[i])
				if rev {
					k = -k
				}
				if k < 0 || (k == 0 && j < i) {
					rank++
				}
			}
			out[rank] = elems[i]
		}
		return V{T: "list", L: out}, true
	}
	best := 0
	for i := 1; i < len(elems); i++ {
		k, _ := cmpV(keys[i], keys[best])
		if (c.Name == "min" && k < 0) || (c.Name == "max" && k > 0) {
			best = i
		}
	}
	return elems[best], true
}

// oracle: expected result, expected receiver afterwards (lists), ok.
func oracle(c *Case) (V, *V, bool) {
	switch c.Op {
	case "alias":
		v, ok := aliasSpec(c)
		return v, nil, ok
	case "sort":
		v, ok := sortSpec(c)
		return v, nil, ok
	case "slice":
		idx, ok := sliceIndices(seqLen(*c.X), c.Args[0], c.Args[1], c.Args[2])
		if !ok {
			return errV, nil, true
		}
		return pickSeq(*c.X, idx), nil, true
	case "index":
		k, ok := normIndex(seqLen(*c.X), c.Args[0])
		if !ok {
			return errV, nil, true
		}
		return elemAt(*c.X, k), nil, true
	case "setindex":
		if c.X.T != "list" {
			return errV, c.X, true
		}
		k, ok := normIndex(len(c.X.L), c.Args[0])
		if !ok {
			return errV, c.X, true
		}
		out := append([]V{}, c.X.L...)
		out[k] = c.Args[1]
		a := V{T: "list", L: out}
		return vNone(), &a, true
	case "call":
		if c.X.T == "str" && c.Name == "format" {
			v, ok := formatSpec(c.X.str(), c.Args, c.Kw)
			return v, nil, ok
		}
		if len(c.Kw) > 0 {
			return errV, nil, true // no other method of this property accepts keyword arguments
		}
		if c.X.T == "str" {
			v, ok := stringMethod(c.Name, []byte(c.X.str()), c.Args)
			return v, nil, ok
		}
		if c.X.T == "list" {
			return listMethod(c.Name, c.X.L, c.Args)
		}
	case "builtin":
		v, ok := builtinSpec(c.Name, c.Args)
		return v, nil, ok
	case "bin":
		x, y := *c.X, c.Args[0]
		if c.Name == "%" {
			v, ok := interpolateSpec(x, y)
			return v, nil, ok
		}
		if c.Name == "+" {
			// spec.md "Concatenation": string + string, list + list, tuple + tuple (not bytes)
			if !isSeq(x) || x.T != y.T || x.T == "bytes" {
				return errV, nil, true
			}
			if x.T == "str" {
				return V{T: x.T, S: x.S + y.S}, nil, true
			}
			return V{T: x.T, L: append(append([]V{}, x.L...), y.L...)}, nil, true
		}
		if isSeq(x) && y.T == "int" {
			return repeatSpec(x, y), nil, true
		}
		if isSeq(y) && x.T == "int" {
			return repeatSpec(y, x), nil, true
		}
		return errV, nil, true
	}
	return errV, nil, false
}

// sortIntKeys reports whether every key of a sort case is an int (the fragment modelled in Coq).
func sortIntKeys(c *Case) bool {
	var elems []V
	if len(c.Args) == 1 {
		el, ok := iterElems(c.Args[0])
		if !ok {
			return false
		}
		elems = el
	} else if c.Name != "sorted" && len(c.Args) >= 2 {
		elems = c.Args
	} else {
		return false
	}
	for _, e := range elems {
		k, err := keyOf(c.Key, e)
		if err != nil || k.T != "int" {
			return false
		}
	}
	return true
}

// ---- str(x), repr(x), string.format and % interpolation (spec.md "string·format",
// "String interpolation").  Written from the specification text as character scanners.

// reprV: repr(x); ok=false for values whose text this copy does not define (floats other than
// short decimals, iterator views ...).
func reprV(v V) (string, bool) {
	switch v.T {
	case "none":
		return "None", true
	case "bool":
		if v.B {
			return "True", true
		}
		return "False", true
	case "int":
		return v.big().String(), true
	case "float":
		f := v.float()
		if f == float64(int64(f)) && f > -1e15 && f < 1e15 {
			return fmt.Sprintf("%d.0", int64(f)), true
		}
		if f*16 == float64(int64(f*16)) && f > -1e6 && f < 1e6 {
			t := fmt.Sprintf("%.4f", f)
			for t[len(t)-1] == '0' {
				t = t[:len(t)-1]
			}
			return t, true
		}
		return "", false
	case "str", "bytes":
		out := []byte{'"'}
		if v.T == "bytes" {
			out = []byte{'b', '"'}
		}
		for _, c := range []byte(v.str()) {
			switch {
			case c == '"' || c == 92:
				out = append(out, 92, c)
			case c == 10:
				out = append(out, 92, 'n')
			case c == 9:
				out = append(out, 92, 't')
			case c == 13:
				out = append(out, 92, 'r')
			case c < 32 || c > 126:
				return "", false
			default:
				out = append(out, c)
			}
		}
		return string(append(out, '"')), true
	case "list", "tuple":
		open, close := "[", "]"
		if v.T == "tuple" {
			open, close = "(", ")"
		}
		t := open
		for i, e := range v.L {
			r, ok := reprV(e)
			if !ok {
				return "", false
			}
			if i > 0 {
				t += ", "
			}
			t += r
		}
		if v.T == "tuple" && len(v.L) == 1 {
			t += ","
		}
		return t + close, true
	case "dict":
		t := "{"
		for i := 0; i+1 < len(v.L); i += 2 {
			k, ok1 := reprV(v.L[i])
			x, ok2 := reprV(v.L[i+1])
			if !ok1 || !ok2 {
				return "", false
			}
			if i > 0 {
				t += ", "
			}
			t += k + ": " + x
		}
		return t + "}", true
	case "range":
		if v.R[2] != 1 {
			return fmt.Sprintf("range(%d, %d, %d)", v.R[0], v.R[1], v.R[2]), true
		} else if v.R[0] != 0 {
			return fmt.Sprintf("range(%d, %d)", v.R[0], v.R[1]), true
		}
		return fmt.Sprintf("range(%d)", v.R[1]), true
	}
	return "", false
}

// strOfV: str(x) -- a string is itself, everything else as repr
func strOfV(v V) (string, bool) {
	if v.T == "str" {
		return v.str(), true
	}
	return reprV(v)
}

func allDigits(s string) bool {
	for i := 0; i < len(s); i++ {
		if s[i] < '0' || s[i] > '9' {
			return false
		}
	}
	return true
}

// formatSpec: S.format(*args, **kwargs)
func formatSpec(f string, args []V, kw []V) (V, bool) {
	var out []byte
	next := 0 // next automatic index
	auto, manual := false, false
	for i := 0; i < len(f); {
		c := f[i]
		if c == '}' {
			if i+1 < len(f) && f[i+1] == '}' {
				out = append(out, '}')
				i += 2
				continue
			}
			return errV, true // a single '}'
		}
		if c != '{' {
			out = append(out, c)
			i++
			continue
		}
		if i+1 < len(f) && f[i+1] == '{' {
			out = append(out, '{')
			i += 2
			continue
		}
		// a replacement field: up to the next '}'
		j := i + 1
		for j < len(f) && f[j] != '}' {
			j++
		}
		if j == len(f) {
			return errV, true // unmatched '{'
		}
		field := f[i+1 : j]
		i = j + 1
		// field = name [ '!' conv ] [ ':' spec ]; each field starts afresh: conversion s, empty spec
		name, conv, spec := field, "s", ""
		bang := -1
		for k := 0; k < len(field); k++ {
			if field[k] == '!' {
				bang = k
				break
			}
		}
		if bang >= 0 {
			name = field[:bang]
			rest := field[bang+1:]
			conv = rest
			for k := 0; k < len(rest); k++ {
				if rest[k] == ':' {
					conv, spec = rest[:k], rest[k+1:]
					break
				}
			}
		} else {
			for k := 0; k < len(field); k++ {
				if field[k] == ':' {
					name, spec = field[:k], field[k+1:]
					break
				}
			}
		}
		var arg *V
		switch {
		case name == "":
			if manual {
				return errV, true
			}
			auto = true
			if next >= len(args) {
				return errV, true
			}
			arg = &args[next]
			next++
		case allDigits(name):
			if auto {
				return errV, true
			}
			manual = true
			// a decimal number of any size (leading zeros allowed): the index of a positional argument
			n, _ := new(big.Int).SetString(name, 10)
			if n.Cmp(big.NewInt(int64(len(args)))) >= 0 {
				return errV, true // index out of range, however large
			}
			arg = &args[n.Int64()]
		default:
			for k := 0; k+1 < len(kw); k += 2 {
				if kw[k].str() == name {
					arg = &kw[k+1]
					break
				}
			}
			if arg == nil {
				return errV, true // keyword not supplied
			}
		}
		if spec != "" {
			return errV, true // "Currently it must be empty"
		}
		var t string
		var ok bool
		switch conv {
		case "s":
			t, ok = strOfV(*arg)
		case "r":
			t, ok = reprV(*arg)
		default:
			return errV, true
		}
		if !ok {
			return errV, false
		}
		out = append(out, t...)
	}
	return vStr(string(out)), true
}

// interpolateSpec: format % args
func interpolateSpec(fv, x V) (V, bool) {
	if fv.T != "str" {
		return errV, false
	}
	f := fv.str()
	var operands []V
	if x.T == "tuple" {
		operands = x.L
	} else {
		operands = []V{x}
	}
	isMap := x.T == "dict"
	var out []byte
	used := 0
	for i := 0; i < len(f); {
		if f[i] != '%' {
			out = append(out, f[i])
			i++
			continue
		}
		i++
		if i < len(f) && f[i] == '%' {
			out = append(out, '%')
			i++
			continue
		}
		var arg V
		if i < len(f) && f[i] == '(' {
			j := i + 1
			for j < len(f) && f[j] != ')' {
				j++
			}
			if j == len(f) || !isMap {
				return errV, true
			}
			key := f[i+1 : j]
			found := false
			for k := 0; k+1 < len(x.L); k += 2 {
				if x.L[k].T == "str" && x.L[k].str() == key {
					arg, found = x.L[k+1], true
				}
			}
			if !found {
				return errV, true
			}
			i = j + 1
			if i < len(f) && f[i] == '%' {
				return errV, false // "%(key)%": not described by the specification text
			}
		} else {
			if used >= len(operands) {
				return errV, true // not enough arguments
			}
			arg = operands[used]
		}
		if i == len(f) {
			return errV, true // incomplete conversion
		}
		conv := f[i]
		i++
		used++
		switch conv {
		case 's':
			t, ok := strOfV(arg)
			if !ok {
				return errV, false
			}
			out = append(out, t...)
		case 'r':
			t, ok := reprV(arg)
			if !ok {
				return errV, false
			}
			out = append(out, t...)
		case 'd', 'i', 'o', 'x', 'X':
			var z *big.Int
			switch arg.T {
			case "int":
				z = arg.big()
			case "float":
				fl := arg.float()
				if fl != float64(int64(fl)) && (fl > 1e15 || fl < -1e15) {
					return errV, false
				}
				z = big.NewInt(int64(fl)) // truncation toward zero
			default:
				return errV, true // a Boolean is not a number
			}
			base := map[byte]int{'d': 10, 'i': 10, 'o': 8, 'x': 16, 'X': 16}[conv]
			t := z.Text(base)
			if conv == 'X' {
				b := []byte(t)
				for k, ch := range b {
					b[k] = upc(ch)
				}
				t = string(b)
			}
			out = append(out, t...)
		case 'c':
			switch arg.T {
			case "int":
				z := arg.big()
				if !z.IsInt64() || z.Int64() < 0 || z.Int64() > 0x10FFFF {
					return errV, true
				}
				if z.Int64() > 127 {
					return errV, false // outside ASCII
				}
				out = append(out, byte(z.Int64()))
			case "str":
				t := arg.str()
				if len(t) != 1 {
					return errV, len(t) == 0 || t[0] < 128
				}
				out = append(out, t[0])
			default:
				return errV, true
			}
		case 'e', 'f', 'g', 'E', 'F', 'G':
			if arg.T != "int" && arg.T != "float" {
				return errV, true
			}
			return errV, false // float formatting: no copy here
		default:
			return errV, true // unknown conversion
		}
	}
	if used < len(operands) && !isMap {
		return errV, true // too many arguments
	}
	return vStr(string(out)), true
}

// ---- results are new values: x * n, x + y, x[i:j:k], list(x), sorted(x), reversed(x) on lists
// return a NEW list (spec.md: "yields a new value" / "returns a new list"), so a later in-place
// change of the result is invisible in the operands and vice versa.  aliasSpec computes the
// three lists (x, a, r) after the mutation with value semantics: every list is its own copy.
func aliasSpec(c *Case) (V, bool) {
	x, a := *c.X, c.Args[0]
	if x.T != "list" {
		return errV, false
	}
	cp := func(l []V) []V { return append([]V{}, l...) }
	var r []V
	switch c.Name {
	case "mul", "rmul":
		sub := Case{Op: "bin", Name: "*", X: &x, Args: []V{a}}
		v, _, ok := oracle(&sub)
		if !ok || v.T != "list" {
			return errV, ok
		}
		r = cp(v.L)
	case "add":
		if a.T != "list" {
			return errV, true
		}
		r = append(cp(x.L), a.L...)
	case "radd":
		if a.T != "list" {
			return errV, true
		}
		r = append(cp(a.L), x.L...)
	case "addself":
		r = append(cp(x.L), x.L...)
	case "slice":
		sub := Case{Op: "slice", X: &x, Args: a.L}
		v, _, ok := oracle(&sub)
		if !ok || v.T != "list" {
			return errV, ok
		}
		r = cp(v.L)
	case "list":
		r = cp(x.L)
	case "reversed":
		for i := len(x.L) - 1; i >= 0; i-- {
			r = append(r, x.L[i])
		}
	case "sorted":
		sub := Case{Op: "sort", Name: "sorted", Args: []V{x}}
		v, ok := sortSpec(&sub)
		if !ok || v.T != "list" {
			return errV, ok
		}
		r = cp(v.L)
	default:
		return errV, false
	}
	xs := cp(x.L)
	as := a
	target := &xs
	var al []V
	switch {
	case len(c.Key) >= 6 && c.Key[len(c.Key)-6:] == "result":
		target = &r
	case len(c.Key) >= 5 && c.Key[len(c.Key)-5:] == "other":
		if a.T != "list" {
			return errV, true // ints and tuples cannot be mutated
		}
		al = cp(a.L)
		target = &al
	}
	t := *target
	switch {
	case len(c.Key) >= 3 && c.Key[:3] == "set":
		if len(t) > 0 {
			t[len(t)-1] = vInt(99)
		}
	case len(c.Key) >= 9 && c.Key[:9] == "popappend":
		if len(t) > 0 {
			t = t[:len(t)-1]
		}
		t = append(t, vInt(98))
	case len(c.Key) >= 6 && c.Key[:6] == "append":
		t = append(t, vInt(99))
	case len(c.Key) >= 5 && c.Key[:5] == "clear":
		t = nil
	case len(c.Key) >= 6 && c.Key[:6] == "insert":
		t = append([]V{vInt(97)}, t...)
	}
	*target = t
	if al != nil || (a.T == "list" && target == &al) {
		as = V{T: "list", L: al}
	}
	return vTuple(V{T: "list", L: xs}, as, V{T: "list", L: r}), true
}
