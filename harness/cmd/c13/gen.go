package main

import (
	"verifharness/internal/hx"
)

// mkSeq builds a receiver of the given kind from a byte string: string and
// bytes hold the bytes, list and tuple hold the byte values as ints.
func mkSeq(kind string, b []byte) V {
	switch kind {
	case "string":
		return vStr(string(b))
	case "bytes":
		return vBytes(string(b))
	}
	l := make([]V, len(b))
	for i, c := range b {
		l[i] = vInt(int64(c))
	}
	if kind == "list" {
		return V{T: "list", L: l}
	}
	return V{T: "tuple", L: l}
}

// allStrings enumerates every string over alpha of length lo..hi.
func allStrings(alpha string, lo, hi int) []string {
	var out []string
	var rec func(prefix []byte, n int)
	rec = func(prefix []byte, n int) {
		if len(prefix) == n {
			out = append(out, string(prefix))
			return
		}
		for i := 0; i < len(alpha); i++ {
			rec(append(prefix, alpha[i]), n)
		}
	}
	for n := lo; n <= hi; n++ {
		rec(nil, n)
	}
	return out
}

func randString(r *hx.Rand, alpha string, n int) string {
	b := make([]byte, n)
	for i := range b {
		b[i] = alpha[r.Intn(len(alpha))]
	}
	return string(b)
}

// idxPool: None plus every integer in [-n-3, n+3].
func idxPool(n int) []V {
	out := []V{vNone()}
	for i := -n - 3; i <= n+3; i++ {
		out = append(out, vInt(int64(i)))
	}
	return out
}

var kinds = []string{"string", "bytes", "list", "tuple"}

func genIndexSlice(s *sink, quick bool) {
	maxAll := 5
	if quick {
		maxAll = 2
	}
	if quick {
		s.coqEvery["slice"], s.pyEvery["slice"] = 1200, 45
		s.coqEvery["slice:range"], s.pyEvery["slice:range"] = 800, 24
		s.coqEvery["index"], s.pyEvery["index"] = 40, 5
		s.coqEvery["setindex"], s.pyEvery["setindex"] = 4, 2
	} else {
		s.coqEvery["slice"], s.pyEvery["slice"] = 1100, 28
		s.coqEvery["slice:range"], s.pyEvery["slice:range"] = 100, 8
		s.coqEvery["index"], s.pyEvery["index"] = 20, 3
		s.coqEvery["setindex"], s.pyEvery["setindex"] = 10, 2
	}
	for n := 0; n <= 8; n++ {
		var recvs []string
		if n <= maxAll {
			recvs = allStrings("abc", n, n)
		} else {
			k := 12
			if quick {
				k = 1
			}
			for i := 0; i < k; i++ {
				recvs = append(recvs, randString(s.r, "abc", n))
			}
		}
		pool := idxPool(n)
		bad := []V{vStr("x"), vFloat()}
		for ri, rs := range recvs {
			for ki, kind := range kinds {
				if quick && n > maxAll && (ki+n+ri)%2 == 0 {
					continue // quick tier: two of the four kinds per sampled receiver
				}
				x := mkSeq(kind, []byte(rs))
				for _, lo := range pool {
					for _, hi := range pool {
						for _, st := range pool {
							s.do(Case{Op: "slice", Kind: kind, X: &x, Args: []V{lo, hi, st}, Class: "slice"})
						}
					}
				}
				for _, b := range bad {
					s.do(Case{Op: "slice", Kind: kind, X: &x, Args: []V{b, vNone(), vNone()}, Class: "index"})
					s.do(Case{Op: "slice", Kind: kind, X: &x, Args: []V{vNone(), b, vInt(-1)}, Class: "index"})
					s.do(Case{Op: "slice", Kind: kind, X: &x, Args: []V{vInt(0), vInt(1), b}, Class: "index"})
					s.do(Case{Op: "index", Kind: kind, X: &x, Args: []V{b}, Class: "index"})
				}
				for _, i := range pool {
					s.do(Case{Op: "index", Kind: kind, X: &x, Args: []V{i}, Class: "index"})
					if kind == "list" {
						s.do(Case{Op: "setindex", Kind: kind, X: &x, Args: []V{i, vInt(7)}, Class: "setindex"})
					}
				}
				if kind != "list" && n <= 2 {
					s.do(Case{Op: "setindex", Kind: kind, X: &x, Args: []V{vInt(0), vInt(7)}, Class: "setindex"})
				}
			}
		}
		// ranges of length n
		nn := int64(n)
		for gi, rg := range [][3]int64{{0, nn, 1}, {nn, 0, -1}, {1, 1 + 2*nn, 2}, {5, 5 - 3*nn, -3}, {-2, -2 + 2*nn - 1, 2}} {
			if rg[2] == 2 && rg[0] == -2 && n == 0 {
				continue
			}
			if quick && n > 3 && (gi+n)%3 != 0 {
				continue
			}
			x := vRange(rg[0], rg[1], rg[2])
			for _, lo := range pool {
				for _, hi := range pool {
					for _, st := range pool {
						s.do(Case{Op: "slice", Kind: "range", X: &x, Args: []V{lo, hi, st}, Class: "slice:range"})
					}
				}
			}
			for _, i := range pool {
				s.do(Case{Op: "index", Kind: "range", X: &x, Args: []V{i}, Class: "index"})
			}
		}
	}
}

func strV(ss ...string) []V {
	out := make([]V, len(ss))
	for i, x := range ss {
		out[i] = vStr(x)
	}
	return out
}

func call(s *sink, recv V, kind, name, class string, args ...V) {
	x := recv
	s.do(Case{Op: "call", Kind: kind, X: &x, Name: name, Args: append([]V{}, args...), Class: class})
}

func genMethods(s *sink, quick bool) {
	maxLen := 4
	if quick {
		maxLen = 3
	}
	rate := func(class string, coqQ, pyQ, coqT, pyT int) {
		if quick {
			s.coqEvery[class], s.pyEvery[class] = coqQ, pyQ
		} else {
			s.coqEvery[class], s.pyEvery[class] = coqT, pyT
		}
	}
	needles := []string{"", "a", "b", "aa", "ab", "ba", "bb", "c", "aba", "abc"}
	// --- find / rfind / index / rindex / count / startswith / endswith with sub-ranges
	rate("subrange", 2700, 40, 1250, 26)
	for ri, rs := range allStrings("abc", 0, maxLen) {
		recv := vStr(rs)
		pool := idxPool(len(rs))
		for mi, m := range []string{"find", "rfind", "index", "rindex", "count", "startswith", "endswith"} {
			for ni, nd := range needles {
				if len(nd) > 2 && len(rs) < 3 {
					continue
				}
				if quick && len(rs) == 3 && (ri+mi+ni)%3 != 0 {
					continue
				}
				call(s, recv, "string", m, "subrange", vStr(nd))
				for _, a := range pool {
					call(s, recv, "string", m, "subrange", vStr(nd), a)
					for _, b := range pool {
						call(s, recv, "string", m, "subrange", vStr(nd), a, b)
					}
				}
			}
		}
	}
	// argument handling of the same methods
	rate("subrange:args", 5, 1, 3, 1)
	for _, rs := range []string{"", "ab", "abcab"} {
		recv := vStr(rs)
		for _, m := range []string{"find", "rfind", "index", "rindex", "count", "startswith", "endswith"} {
			call(s, recv, "string", m, "subrange:args")
			call(s, recv, "string", m, "subrange:args", vInt(1))
			call(s, recv, "string", m, "subrange:args", vNone())
			call(s, recv, "string", m, "subrange:args", vBytes("a"))
			call(s, recv, "string", m, "subrange:args", vStr("a"), vStr("x"))
			call(s, recv, "string", m, "subrange:args", vStr("a"), vInt(0), vFloat())
			call(s, recv, "string", m, "subrange:args", vStr("a"), vInt(0), vInt(1), vInt(2))
			if m == "startswith" || m == "endswith" {
				for _, t := range []V{vTuple(), vTuple(strV("a", "b")...), vTuple(strV("ab", "")...), vTuple(vStr("a"), vInt(1)), vTuple(vInt(1), vStr("a")),
					vTuple(strV("c", "cab", "ab")...), vList(strV("a")...), vTuple(vStr("b"), vNone())} {
					call(s, recv, "string", m, "subrange:args", t)
					call(s, recv, "string", m, "subrange:args", t, vInt(1))
					call(s, recv, "string", m, "subrange:args", t, vInt(-2), vInt(-1))
					call(s, recv, "string", m, "subrange:args", t, vInt(3), vInt(1))
				}
			}
		}
	}
	// --- split / rsplit with a separator
	rate("split", 360, 9, 75, 5)
	seps := []V{vStr("a"), vStr("b"), vStr("ab"), vStr("aa"), vStr("aba"), vStr(""), vInt(1), vBytes("a")}
	for _, rs := range allStrings("abc", 0, maxLen+1) {
		recv := vStr(rs)
		counts := []V{vInt(-1), vInt(0), vInt(1), vInt(2), vInt(3), vInt(int64(len(rs) + 1)), vInt(-5), vNone(), vStr("1")}
		for _, m := range []string{"split", "rsplit"} {
			for _, sep := range seps {
				call(s, recv, "string", m, "split", sep)
				for _, c := range counts {
					call(s, recv, "string", m, "split", sep, c)
				}
			}
			call(s, recv, "string", m, "split", vStr("a"), vInt(1), vInt(2))
		}
	}
	// --- split / rsplit on white space
	rate("wsplit", 270, 9, 75, 5)
	for _, rs := range allStrings("a b", 0, maxLen+2) {
		recv := vStr(rs)
		counts := []V{vInt(-1), vInt(0), vInt(1), vInt(2), vInt(3), vInt(int64(len(rs) + 1)), vNone()}
		for _, m := range []string{"split", "rsplit"} {
			call(s, recv, "string", m, "wsplit")
			call(s, recv, "string", m, "wsplit", vNone())
			for _, c := range counts {
				call(s, recv, "string", m, "wsplit", vNone(), c)
			}
		}
	}
	for i := 0; i < 3000; i++ {
		recv := vStr(randString(s.r, "ab \t\n\r\v\f", s.r.Intn(12)))
		m := "split"
		if s.r.Bool() {
			m = "rsplit"
		}
		switch s.r.Intn(3) {
		case 0:
			call(s, recv, "string", m, "wsplit")
		default:
			call(s, recv, "string", m, "wsplit", vNone(), vInt(int64(s.r.Intn(6))-1))
		}
	}
	// --- splitlines
	rate("splitlines", 21, 4, 20, 2)
	for _, rs := range allStrings("a\nb", 0, maxLen+1) {
		recv := vStr(rs)
		call(s, recv, "string", "splitlines", "splitlines")
		for _, k := range []V{vBool(true), vBool(false), vInt(1), vNone(), vStr("x")} {
			call(s, recv, "string", "splitlines", "splitlines", k)
		}
		call(s, recv, "string", "splitlines", "splitlines", vBool(true), vBool(true))
	}
	// --- partition / rpartition / removeprefix / removesuffix
	rate("partition", 216, 8, 50, 4)
	for _, rs := range allStrings("abc", 0, maxLen+1) {
		recv := vStr(rs)
		for _, m := range []string{"partition", "rpartition", "removeprefix", "removesuffix"} {
			for _, nd := range needles {
				call(s, recv, "string", m, "partition", vStr(nd))
			}
			call(s, recv, "string", m, "partition", vInt(1))
			call(s, recv, "string", m, "partition", vNone())
			call(s, recv, "string", m, "partition")
			call(s, recv, "string", m, "partition", vStr("a"), vStr("b"))
		}
	}
	// --- strip family
	rate("strip", 180, 8, 50, 4)
	for _, rs := range allStrings("a b", 0, maxLen+1) {
		recv := vStr(rs)
		for _, m := range []string{"strip", "lstrip", "rstrip"} {
			call(s, recv, "string", m, "strip")
			for _, ch := range []V{vStr(""), vStr("a"), vStr("ab"), vStr(" "), vStr(" a"), vStr("ba "), vNone(), vInt(1)} {
				call(s, recv, "string", m, "strip", ch)
			}
			call(s, recv, "string", m, "strip", vStr("a"), vStr("b"))
		}
	}
	for i := 0; i < 2000; i++ {
		recv := vStr(randString(s.r, "ab \t\n\r\v\fxy", s.r.Intn(10)))
		m := []string{"strip", "lstrip", "rstrip"}[s.r.Intn(3)]
		if s.r.Bool() {
			call(s, recv, "string", m, "strip")
		} else {
			call(s, recv, "string", m, "strip", vStr(randString(s.r, "ab \tx", s.r.Intn(4))))
		}
	}
	// --- replace
	rate("replace", 900, 19, 450, 13)
	for _, rs := range allStrings("abc", 0, maxLen) {
		recv := vStr(rs)
		for _, old := range needles {
			for _, nw := range []string{"", "x", "ab", old, "aa"} {
				call(s, recv, "string", "replace", "replace", vStr(old), vStr(nw))
				for _, c := range []V{vInt(-1), vInt(0), vInt(1), vInt(2), vInt(5), vInt(-7)} {
					call(s, recv, "string", "replace", "replace", vStr(old), vStr(nw), c)
				}
			}
		}
		call(s, recv, "string", "replace", "replace", vStr("a"))
		call(s, recv, "string", "replace", "replace", vStr("a"), vInt(1))
		call(s, recv, "string", "replace", "replace", vInt(1), vStr("a"))
		call(s, recv, "string", "replace", "replace", vStr("a"), vStr("b"), vNone())
		call(s, recv, "string", "replace", "replace", vStr("a"), vStr("b"), vStr("1"))
		call(s, recv, "string", "replace", "replace", vStr("a"), vStr("b"), vInt(1), vInt(1))
	}
	// --- join
	rate("join", 10, 3, 5, 1)
	iters := []V{vList(), vList(strV("a")...), vList(strV("a", "b")...), vList(strV("a", "", "b")...), vTuple(strV("x", "y")...), vTuple(),
		vList(vStr("a"), vInt(1)), vList(vInt(1), vStr("a")), vList(vStr("a"), vNone(), vStr("b")), vStr("abc"), vInt(1), vNone(), vList(vBytes("a")),
		vList(strV("", "")...), vTuple(strV("ab", "cd", "ef", "")...)}
	for _, sep := range []string{"", ",", "ab", " "} {
		recv := vStr(sep)
		for _, it := range iters {
			call(s, recv, "string", "join", "join", it)
		}
		call(s, recv, "string", "join", "join")
		call(s, recv, "string", "join", "join", vList(), vList())
	}
	// --- case mapping and predicates
	rate("case", 144, 9, 125, 5)
	caseM := []string{"upper", "lower", "capitalize", "title", "isalnum", "isalpha", "isdigit", "islower", "isupper", "isspace", "istitle"}
	cl := 3
	if !quick {
		cl = 4
	}
	for _, rs := range allStrings("aB1 -", 0, cl) {
		recv := vStr(rs)
		for _, m := range caseM {
			call(s, recv, "string", m, "case")
		}
	}
	for i := 0; i < 3000; i++ {
		recv := vStr(randString(s.r, "abzABZ019 \t\n-_'.@[`{", s.r.Intn(12)))
		call(s, recv, "string", caseM[s.r.Intn(len(caseM))], "case")
	}
	for _, m := range caseM {
		call(s, vStr("aB"), "string", m, "case", vInt(1))
		call(s, vStr("aB"), "string", m, "case", vNone())
	}
}

func intList(xs ...int64) V {
	l := make([]V, len(xs))
	for i, x := range xs {
		l[i] = vInt(x)
	}
	return V{T: "list", L: l}
}

func genSeq(s *sink, quick bool) {
	rate := func(class string, coqQ, pyQ, coqT, pyT int) {
		if quick {
			s.coqEvery[class], s.pyEvery[class] = coqQ, pyQ
		} else {
			s.coqEvery[class], s.pyEvery[class] = coqT, pyT
		}
	}
	maxLen := 4
	if quick {
		maxLen = 3
	}
	rate("list.index", 900, 16, 350, 10)
	rate("list", 54, 6, 30, 3)
	for _, rs := range allStrings("\x00\x01\x02", 0, maxLen) {
		recv := mkSeq("list", []byte(rs))
		pool := idxPool(len(rs))
		for _, v := range []V{vInt(0), vInt(1), vInt(2), vInt(5), vStr("a")} {
			call(s, recv, "list", "index", "list.index", v)
			for _, a := range pool {
				call(s, recv, "list", "index", "list.index", v, a)
				for _, b := range pool {
					call(s, recv, "list", "index", "list.index", v, a, b)
				}
			}
			call(s, recv, "list", "remove", "list", v)
			call(s, recv, "list", "append", "list", v)
		}
		for _, i := range pool {
			call(s, recv, "list", "insert", "list", i, vInt(9))
			call(s, recv, "list", "pop", "list", i)
		}
		call(s, recv, "list", "pop", "list")
		call(s, recv, "list", "clear", "list")
		call(s, recv, "list", "clear", "list", vInt(1))
		call(s, recv, "list", "insert", "list", vStr("x"), vInt(9))
		call(s, recv, "list", "insert", "list", vFloat(), vInt(9))
		call(s, recv, "list", "insert", "list", vInt(1))
		call(s, recv, "list", "insert", "list", vInt(1), vInt(2), vInt(3))
		call(s, recv, "list", "pop", "list", vStr("x"))
		call(s, recv, "list", "pop", "list", vInt(0), vInt(0))
		call(s, recv, "list", "index", "list")
		call(s, recv, "list", "index", "list", vInt(0), vStr("x"))
		call(s, recv, "list", "index", "list", vInt(0), vInt(0), vFloat())
		call(s, recv, "list", "index", "list", vInt(0), vInt(0), vInt(1), vInt(1))
		call(s, recv, "list", "remove", "list")
		call(s, recv, "list", "append", "list")
		call(s, recv, "list", "append", "list", vInt(1), vInt(2))
		for _, it := range []V{vList(), intList(7, 8), vTuple(vInt(7)), vTuple(), vStr("ab"), vInt(3), vNone(), vList(vStr("a"), vNone())} {
			call(s, recv, "list", "extend", "list", it)
		}
		call(s, recv, "list", "extend", "list")
	}
	// nested / mixed element types for equality-based methods
	mixed := vList(vStr("a"), vInt(1), vNone(), vTuple(vInt(1), vInt(2)), vList(vInt(1)), vStr(""), vInt(1))
	for _, v := range []V{vStr("a"), vInt(1), vNone(), vTuple(vInt(1), vInt(2)), vList(vInt(1)), vStr(""), vTuple(), vList()} {
		call(s, mixed, "list", "index", "list", v)
		call(s, mixed, "list", "index", "list", v, vInt(2))
		call(s, mixed, "list", "remove", "list", v)
	}
	// --- built-ins
	rate("builtin", 25, 3, 10, 2)
	truthy := []V{vInt(0), vInt(1), vStr(""), vStr("a"), vNone(), vList(), intList(0), vTuple(), vTuple(vInt(0)), vBytes(""), vBytes("a"), vInt(-1)}
	var seqs []V
	for _, n := range []int{0, 1, 2, 3} {
		for k := 0; k < 6; k++ {
			l := make([]V, n)
			for i := range l {
				l[i] = truthy[s.r.Intn(len(truthy))]
			}
			if k%2 == 0 {
				seqs = append(seqs, V{T: "list", L: l})
			} else {
				seqs = append(seqs, V{T: "tuple", L: l})
			}
		}
	}
	for _, t := range truthy {
		seqs = append(seqs, vList(t), vTuple(t, t))
	}
	seqs = append(seqs, intList(1, 2, 3, 4, 5), vTuple(strV("a", "b", "c")...), vRange(0, 4, 1), vRange(5, 0, -2))
	bad := []V{vInt(1), vNone(), vStr("ab"), vFloat(), vBytes("ab")}
	for _, f := range []string{"reversed", "any", "all", "enumerate"} {
		for _, x := range seqs {
			s.do(Case{Op: "builtin", Name: f, Args: []V{x}, Class: "builtin"})
		}
		for _, x := range bad {
			s.do(Case{Op: "builtin", Name: f, Args: []V{x}, Class: "builtin"})
		}
		s.do(Case{Op: "builtin", Name: f, Args: []V{}, Class: "builtin"})
		s.do(Case{Op: "builtin", Name: f, Args: []V{seqs[3], seqs[4], seqs[5]}, Class: "builtin"})
	}
	for _, x := range seqs {
		for _, st := range []V{vInt(0), vInt(1), vInt(-3), vInt(1 << 31), vInt(-(1 << 31) - 1), vNone(), vStr("1"), vFloat()} {
			s.do(Case{Op: "builtin", Name: "enumerate", Args: []V{x, st}, Class: "builtin"})
		}
	}
	s.do(Case{Op: "builtin", Name: "zip", Args: []V{}, Class: "builtin"})
	for i, x := range seqs {
		s.do(Case{Op: "builtin", Name: "zip", Args: []V{x}, Class: "builtin"})
		for j, y := range seqs {
			if (i+j)%3 != 0 {
				continue
			}
			s.do(Case{Op: "builtin", Name: "zip", Args: []V{x, y}, Class: "builtin"})
			s.do(Case{Op: "builtin", Name: "zip", Args: []V{x, y, seqs[(i*7+j)%len(seqs)]}, Class: "builtin"})
		}
		for _, b := range bad {
			s.do(Case{Op: "builtin", Name: "zip", Args: []V{x, b}, Class: "builtin"})
			s.do(Case{Op: "builtin", Name: "zip", Args: []V{b, x}, Class: "builtin"})
		}
	}
	// --- concatenation and repetition
	rate("bin", 54, 6, 40, 3)
	for _, rs := range allStrings("ab", 0, 3) {
		for _, kind := range kinds {
			x := mkSeq(kind, []byte(rs))
			for n := int64(-2); n <= 4; n++ {
				s.do(Case{Op: "bin", Kind: kind, X: &x, Name: "*", Args: []V{vInt(n)}, Class: "bin"})
				nv := vInt(n)
				s.do(Case{Op: "bin", Kind: kind, X: &nv, Name: "*", Args: []V{x}, Class: "bin"})
			}
			for _, n := range []int64{1 << 28, 1<<29 - 1, 1 << 29, 1 << 30, 1<<30 - 1, 1<<31 - 1, 357913941, 357913942, 536870912, -(1 << 31)} {
				if len(rs) == 0 || (int64(len(rs))*n >= 1<<30) || n < 0 {
					s.do(Case{Op: "bin", Kind: kind, X: &x, Name: "*", Args: []V{vInt(n)}, Class: "bin"})
				}
			}
			for _, rs2 := range allStrings("ab", 0, 2) {
				for _, kind2 := range kinds {
					if kind2 != kind && len(rs2) != 1 {
						continue
					}
					y := mkSeq(kind2, []byte(rs2))
					s.do(Case{Op: "bin", Kind: kind, X: &x, Name: "+", Args: []V{y}, Class: "bin"})
				}
			}
			s.do(Case{Op: "bin", Kind: kind, X: &x, Name: "+", Args: []V{vNone()}, Class: "bin"})
			s.do(Case{Op: "bin", Kind: kind, X: &x, Name: "*", Args: []V{vNone()}, Class: "bin"})
			s.do(Case{Op: "bin", Kind: kind, X: &x, Name: "*", Args: []V{vStr("2")}, Class: "bin"})
		}
	}
}

// genRandom: random receivers up to length 40, every operation, arguments
// mostly in range and sometimes far outside it.
func genRandom(s *sink, quick bool) {
	n := 400000
	if quick {
		n = 20000
		s.coqEvery["random"], s.pyEvery["random"] = 160, 6
	} else {
		s.coqEvery["random"], s.pyEvery["random"] = 80, 4
	}
	r := s.r
	idx := func(n int) V {
		switch r.Intn(12) {
		case 0:
			return vNone()
		case 1:
			return vInt(int64(r.Intn(200)) - 100)
		default:
			return vInt(int64(r.Intn(2*n+7)) - int64(n) - 3)
		}
	}
	for i := 0; i < n; i++ {
		ln := r.Intn(41)
		alpha := []string{"ab", "abc", "ab ", "aab\n", "aB1 -"}[r.Intn(5)]
		rs := randString(r, alpha, ln)
		switch r.Intn(14) {
		case 0, 1, 2:
			kind := kinds[r.Intn(4)]
			x := mkSeq(kind, []byte(rs))
			st := idx(ln)
			if r.Intn(3) == 0 {
				st = vInt(int64(r.Intn(7)) - 3)
			}
			s.do(Case{Op: "slice", Kind: kind, X: &x, Args: []V{idx(ln), idx(ln), st}, Class: "random"})
		case 3:
			kind := kinds[r.Intn(4)]
			x := mkSeq(kind, []byte(rs))
			s.do(Case{Op: "index", Kind: kind, X: &x, Args: []V{idx(ln)}, Class: "random"})
		case 4, 5:
			m := []string{"find", "rfind", "index", "rindex", "count", "startswith", "endswith"}[r.Intn(7)]
			nd := randString(r, alpha[:2], r.Intn(4))
			if r.Intn(3) == 0 && ln > 0 {
				a := r.Intn(ln)
				nd = rs[a : a+r.Intn(ln-a+1)]
				if len(nd) > 6 {
					nd = nd[:6]
				}
			}
			switch r.Intn(3) {
			case 0:
				call(s, vStr(rs), "string", m, "random", vStr(nd))
			case 1:
				call(s, vStr(rs), "string", m, "random", vStr(nd), idx(ln))
			default:
				call(s, vStr(rs), "string", m, "random", vStr(nd), idx(ln), idx(ln))
			}
		case 6, 7:
			m := []string{"split", "rsplit"}[r.Intn(2)]
			var sep V
			switch r.Intn(4) {
			case 0:
				sep = vNone()
			default:
				sep = vStr(randString(r, alpha, 1+r.Intn(2)))
			}
			if r.Bool() {
				call(s, vStr(rs), "string", m, "random", sep)
			} else {
				call(s, vStr(rs), "string", m, "random", sep, vInt(int64(r.Intn(8))-2))
			}
		case 8:
			old := randString(r, alpha, r.Intn(3))
			nw := randString(r, "xy"+alpha, r.Intn(3))
			if r.Bool() {
				call(s, vStr(rs), "string", "replace", "random", vStr(old), vStr(nw))
			} else {
				call(s, vStr(rs), "string", "replace", "random", vStr(old), vStr(nw), vInt(int64(r.Intn(8))-2))
			}
		case 9:
			m := []string{"partition", "rpartition", "removeprefix", "removesuffix", "strip", "lstrip", "rstrip"}[r.Intn(7)]
			nd := randString(r, alpha, 1+r.Intn(2))
			call(s, vStr(rs), "string", m, "random", vStr(nd))
		case 10:
			m := []string{"upper", "lower", "capitalize", "title", "isalnum", "isalpha", "isdigit", "islower", "isupper", "isspace", "istitle", "splitlines"}[r.Intn(12)]
			call(s, vStr(rs), "string", m, "random")
		case 11, 12:
			recv := mkSeq("list", []byte(randString(r, "\x00\x01\x02\x03", ln)))
			switch r.Intn(5) {
			case 0:
				call(s, recv, "list", "index", "random", vInt(int64(r.Intn(4))), idx(ln), idx(ln))
			case 1:
				call(s, recv, "list", "insert", "random", idx(ln), vInt(9))
			case 2:
				call(s, recv, "list", "pop", "random", idx(ln))
			case 3:
				call(s, recv, "list", "remove", "random", vInt(int64(r.Intn(5))))
			default:
				s.do(Case{Op: "setindex", Kind: "list", X: &recv, Args: []V{idx(ln), vInt(9)}, Class: "random"})
			}
		default:
			a := mkSeq([]string{"list", "tuple"}[r.Intn(2)], []byte(randString(r, "\x00\x01\x02", r.Intn(8))))
			b := mkSeq([]string{"list", "tuple"}[r.Intn(2)], []byte(randString(r, "\x00\x01\x02", r.Intn(8))))
			f := []string{"reversed", "any", "all", "enumerate", "zip"}[r.Intn(5)]
			if f == "zip" {
				s.do(Case{Op: "builtin", Name: f, Args: []V{a, b}, Class: "random"})
			} else {
				s.do(Case{Op: "builtin", Name: f, Args: []V{a}, Class: "random"})
			}
		}
	}
}

// genPyOnly: operations named by the property that have no Coq model and no
// Go copy of the specification here -- string.format, % interpolation, sorted,
// min, max -- on the subset where spec.md follows Python 3 (no format specs,
// no !r / %r whose string quoting differs).  CPython is the only oracle.
func genPyOnly(s *sink, quick bool) {
	// string.format and % have a Coq model and specification (Format.v / FormatSpec.v, Interp.v / InterpSpec.v)
	s.coqEvery["pyonly:format"], s.coqEvery["pyonly:%"] = 3, 3
	vals := []V{vInt(0), vInt(-7), vInt(42), vStr(""), vStr("ab"), vNone(), vBool(true), intList(1, 2), vTuple(vInt(1), vInt(2)), vTuple()}
	fmts := []string{"", "{}", "a{}b", "{}{}", "{0}{0}", "{1}{0}", "{0}-{1}-{0}", "{{}}", "{{{}}}", "{", "}", "{}{0}", "{0}{}", "{2}", "x{}y{}z{}", "{ }", "{-1}", "{a}", "{0.x}", "{:d}x"}
	for _, f := range fmts {
		recv := vStr(f)
		call(s, recv, "string", "format", "pyonly:format")
		for _, a := range vals {
			call(s, recv, "string", "format", "pyonly:format", a)
			for _, b := range vals[:5] {
				call(s, recv, "string", "format", "pyonly:format", a, b)
			}
		}
		call(s, recv, "string", "format", "pyonly:format", vInt(1), vInt(2), vInt(3))
	}
	pcts := []string{"", "%s", "a%sb", "%d", "%d%d", "%s %s", "%%", "%", "%%%s", "%d%%", "x%iy", "%x", "%X", "%o", "%c", "%z", "%s%", "%(a)s"}
	for _, f := range pcts {
		x := vStr(f)
		for _, a := range vals {
			s.do(Case{Op: "bin", Kind: "string", X: &x, Name: "%", Args: []V{a}, Class: "pyonly:%"})
		}
		for _, a := range []V{vTuple(vInt(7), vInt(8)), vTuple(vStr("a"), vInt(3)), vTuple(vInt(65)), vTuple(vStr("x")), vTuple(vInt(1), vInt(2), vInt(3)), vInt(122), vInt(-255), vInt(97), vStr("q")} {
			s.do(Case{Op: "bin", Kind: "string", X: &x, Name: "%", Args: []V{a}, Class: "pyonly:%"})
		}
	}
	n := 300
	if !quick {
		n = 3000
	}
	for i := 0; i < n; i++ {
		ln := s.r.Intn(7)
		var l []V
		kind := s.r.Intn(4)
		for j := 0; j < ln; j++ {
			switch kind {
			case 0:
				l = append(l, vInt(int64(s.r.Intn(9))-4))
			case 1:
				l = append(l, vStr(randString(s.r, "abB", s.r.Intn(3))))
			case 2:
				l = append(l, vTuple(vInt(int64(s.r.Intn(3))), vStr(randString(s.r, "ab", s.r.Intn(2)))))
			default:
				if s.r.Intn(4) == 0 {
					l = append(l, vStr("a"))
				} else {
					l = append(l, vInt(int64(s.r.Intn(5))))
				}
			}
		}
		x := V{T: []string{"list", "tuple"}[s.r.Intn(2)], L: l}
		for _, f := range []string{"sorted", "min", "max"} {
			s.do(Case{Op: "builtin", Name: f, Args: []V{x}, Class: "pyonly:" + f})
		}
		if ln >= 2 {
			s.do(Case{Op: "builtin", Name: "min", Args: l, Class: "pyonly:min"})
			s.do(Case{Op: "builtin", Name: "max", Args: l, Class: "pyonly:max"})
		}
	}
	for _, f := range []string{"sorted", "min", "max"} {
		s.do(Case{Op: "builtin", Name: f, Args: []V{}, Class: "pyonly:" + f})
		s.do(Case{Op: "builtin", Name: f, Args: []V{vInt(1)}, Class: "pyonly:" + f})
		s.do(Case{Op: "builtin", Name: f, Args: []V{vNone()}, Class: "pyonly:" + f})
	}
}

// genSort: sorted / min / max with many key ties -- duplicates, key=len,
// key=x%3, key=0, mixed 1 / 1.0 / True -- with and without reverse, for every
// list of length 0..4 over small pools (exhaustive) and random lists to length 8.
func genSort(s *sink, quick bool) {
	if quick {
		s.coqEvery["sort"], s.pyEvery["sort"] = 18, 2
	} else {
		s.coqEvery["sort"], s.pyEvery["sort"] = 12, 2
	}
	type pool struct {
		vals []V
		keys []string
	}
	ints := []V{vInt(0), vInt(1), vInt(2), vInt(3), vInt(-1), vInt(4), vInt(7), vInt(1)}
	strs := strV("", "a", "b", "B", "bb", "ab", "cc", "A", "d", "eee", "a")
	pairs := []V{vTuple(vInt(1), vStr("a")), vTuple(vInt(2), vStr("b")), vTuple(vInt(1), vStr("c")), vTuple(vInt(2), vStr("d")), vTuple(vInt(0), vInt(5)), vTuple(vInt(1), vStr("a"))}
	mixed := []V{vInt(1), vF(1.0), vBool(true), vInt(0), vF(0.0), vBool(false), vF(0.5), vInt(2), vF(2.0)}
	nums := []V{vInt(1), vF(1.0), vInt(0), vF(0.0), vF(-0.5), vInt(2), vF(2.0), vInt(-1)}
	bad := []V{vInt(1), vStr("a"), vNone(), vTuple(vInt(1))}
	pools := []pool{
		{ints, []string{"", "mod3", "zero", "neg", "ident", "int"}},
		{strs, []string{"", "len", "zero", "lower", "first"}},
		{pairs, []string{"", "first", "len", "zero"}},
		{mixed, []string{"int", "zero"}},
		{nums, []string{"", "int", "neg", "zero"}},
		{bad, []string{"", "zero"}},
	}
	revs := []string{"", "true", "false"}
	emit := func(l []V, key string) {
		for _, kind := range []string{"list", "tuple"} {
			x := V{T: kind, L: append([]V{}, l...)}
			for _, rev := range revs {
				s.do(Case{Op: "sort", Name: "sorted", Args: []V{x}, Key: key, Rev: rev, Class: "sort"})
			}
			for _, f := range []string{"min", "max"} {
				s.do(Case{Op: "sort", Name: f, Args: []V{x}, Key: key, Class: "sort"})
				if len(l) >= 2 && kind == "list" {
					s.do(Case{Op: "sort", Name: f, Args: append([]V{}, l...), Key: key, Class: "sort"})
				}
			}
			if quick {
				break
			}
		}
	}
	maxLen := 4
	if quick {
		maxLen = 3
	}
	for _, p := range pools {
		base := p.vals
		if len(base) > 5 {
			base = base[:5]
		}
		// exhaustive short lists over the first elements of the pool
		var rec func(prefix []V, n int)
		rec = func(prefix []V, n int) {
			if len(prefix) == n {
				for _, k := range p.keys {
					emit(prefix, k)
				}
				return
			}
			for _, v := range base {
				rec(append(append([]V{}, prefix...), v), n)
			}
		}
		for n := 0; n <= maxLen; n++ {
			if n == maxLen && len(p.keys) > 4 && quick {
				continue
			}
			rec(nil, n)
		}
		// random lists of length 3..8 with duplicates
		cnt := 300
		if quick {
			cnt = 60
		}
		for i := 0; i < cnt; i++ {
			n := 3 + s.r.Intn(6)
			l := make([]V, n)
			for j := range l {
				l[j] = p.vals[s.r.Intn(len(p.vals))]
			}
			emit(l, p.keys[s.r.Intn(len(p.keys))])
		}
	}
	// argument handling
	x := intList(2, 1)
	for _, a := range [][]V{{}, {x, x}, {vInt(1)}, {vNone()}, {vStr("ba")}} {
		for _, f := range []string{"sorted", "min", "max"} {
			s.do(Case{Op: "sort", Name: f, Args: a, Class: "sort"})
		}
	}
	s.do(Case{Op: "sort", Name: "min", Args: []V{x}, Rev: "true", Class: "sort"})
	s.do(Case{Op: "sort", Name: "sorted", Args: []V{vRange(5, 0, -1)}, Rev: "true", Key: "mod3", Class: "sort"})
	s.do(Case{Op: "sort", Name: "max", Args: []V{vRange(0, 7, 1)}, Key: "mod3", Class: "sort"})
}

// genIterables: every built-in / method that accepts an iterable is fed sequences
// with a known length (list, tuple, range, str.elems(), str.elem_ords()) AND
// length-less iterables (str.codepoints(), str.codepoint_ords(), bytes.elems()),
// in every argument position, shorter / equal / longer than the other arguments.
func genIterables(s *sink, quick bool) {
	if quick {
		s.coqEvery["iter"], s.pyEvery["iter"] = 12, 2
	} else {
		s.coqEvery["iter"], s.pyEvery["iter"] = 8, 2
	}
	mk := func(kind string, n int) V {
		str := "abcdefgh"[:n]
		switch kind {
		case "list":
			return mkSeq("list", []byte(str))
		case "tuple":
			return mkSeq("tuple", []byte(str))
		case "range":
			return vRange(0, int64(n), 1)
		default:
			return vIter(kind, str)
		}
	}
	kinds := []string{"list", "tuple", "range", "elems", "elem_ords", "codepoints", "codepoint_ords", "belems"}
	maxN := 3
	for _, k := range kinds {
		for n := 0; n <= maxN+1; n++ {
			x := mk(k, n)
			for _, f := range []string{"reversed", "any", "all", "enumerate", "zip", "list", "tuple"} {
				s.do(Case{Op: "builtin", Name: f, Args: []V{x}, Class: "iter"})
			}
			s.do(Case{Op: "builtin", Name: "enumerate", Args: []V{x, vInt(5)}, Class: "iter"})
			for _, key := range []string{"", "zero"} {
				for _, rev := range []string{"", "true"} {
					s.do(Case{Op: "sort", Name: "sorted", Args: []V{x}, Key: key, Rev: rev, Class: "iter"})
				}
				s.do(Case{Op: "sort", Name: "min", Args: []V{x}, Key: key, Class: "iter"})
				s.do(Case{Op: "sort", Name: "max", Args: []V{x}, Key: key, Class: "iter"})
			}
			call(s, intList(7), "list", "extend", "iter", x)
			call(s, vStr("-"), "string", "join", "iter", x)
			// two and three arguments, every pair of kinds, every pair of lengths
			for _, k2 := range kinds {
				for n2 := 0; n2 <= maxN; n2++ {
					y := mk(k2, n2)
					s.do(Case{Op: "builtin", Name: "zip", Args: []V{x, y}, Class: "iter"})
					if quick && (n+n2)%2 == 1 {
						continue
					}
					for _, k3 := range []string{"list", "codepoints", "belems", "range"} {
						for _, n3 := range []int{0, 1, 3} {
							z := mk(k3, n3)
							s.do(Case{Op: "builtin", Name: "zip", Args: []V{x, y, z}, Class: "iter"})
						}
					}
				}
			}
		}
	}
}

// genFormat: string.format and % interpolation with multi-field templates --
// automatic / numbered / keyword fields, !r and !s conversions, format specs,
// unknown conversions, missing positional and keyword arguments, brace
// escapes -- every sequence of up to three template segments (two in the
// quick tier, plus random longer ones) against several argument sets.
func genFormat(s *sink, quick bool) {
	s.pyEvery["format"], s.pyEvery["interp"] = 3, 3
	// every n-th format case is also evaluated in Coq: model (Format.v) and specification
	// (FormatSpec.v) of string.format, with the observed str / repr texts of its arguments
	if quick {
		s.coqEvery["format"], s.coqEvery["interp"] = 16, 28
	} else {
		s.coqEvery["format"], s.coqEvery["interp"] = 40, 60
	}
	segs := []string{"{}", "{0}", "{1}", "{a}", "{b}", "{!r}", "{!s}", "{0!r}", "{1!s}", "{a!r}", "{b!s}", "{:}", "{!r:}", "{:x}", "{!x}", "{!}",
		"{a.b}", "{a[0]}", "{ }", "{{", "}}", "x", "-", "{", "}", "{2}", "{00}"}
	type argset struct {
		pos []V
		kw  []V
	}
	q := vStr("it\"s")
	nl := vStr("a\nb")
	sets := []argset{
		{nil, nil},
		{strV("A"), nil},
		{strV("A", "B"), nil},
		{[]V{vInt(1), q}, []V{vStr("a"), vStr("K")}},
		{[]V{vNone(), vList(vStr("q"), vInt(2)), vTuple(vInt(1))}, []V{vStr("a"), vInt(7), vStr("b"), nl}},
		{strV("A"), []V{vStr("b"), vStr("B")}},
		{[]V{vBool(true), vBytes("by")}, []V{vStr("a"), vTuple(vStr("t"))}},
	}
	emit := func(tpl string) {
		recv := vStr(tpl)
		for _, a := range sets {
			x := recv
			s.do(Case{Op: "call", Kind: "string", X: &x, Name: "format", Args: append([]V{}, a.pos...), Kw: append([]V{}, a.kw...), Class: "format"})
		}
	}
	for _, a := range segs {
		emit(a)
		for _, b := range segs {
			emit(a + b)
			if !quick {
				for _, c := range segs {
					emit(a + b + c)
				}
			}
		}
	}
	n := 4000
	if quick {
		n = 1500
	}
	for i := 0; i < n; i++ {
		t := ""
		for k := 3 + s.r.Intn(3); k > 0; k-- {
			t += segs[s.r.Intn(len(segs))]
		}
		emit(t)
	}
	// Numeric field names at the edges of Go's int: 2^63 - 1, 2^63, 2^63 + 1, 2^64 - 1, 2^64, 2^64 + 1,
	// 10^19, 20 nines, 10 * 2^64, and small numbers written with 19 and more digits.  A field number is a
	// decimal number of any size: too large is an index out of range -- never a wrapped-around small
	// index, never a keyword (the argument sets include these digit strings as keyword names).  Every
	// case of this class is evaluated in Coq as well.
	s.coqEvery["format:bignum"], s.pyEvery["format:bignum"] = 1, 1
	if quick {
		s.coqEvery["format:bignum"] = 3
	}
	bigNames := []string{"9223372036854775806", "9223372036854775807", "9223372036854775808", "9223372036854775809",
		"18446744073709551615", "18446744073709551616", "18446744073709551617", "18446744073709551618",
		"10000000000000000000", "99999999999999999999", "184467440737095516160", "184467440737095516161",
		"36893488147419103232", "36893488147419103233", "340282366920938463463374607431768211456", "340282366920938463463374607431768211457",
		"0000000000000000000", "0000000000000000001", "00000000000000000001", "000000000000000000000000000002", "999999999", "2147483648", "4294967296", "4294967297"}
	bigSets := []argset{
		{nil, nil},
		{strV("A"), nil},
		{strV("A", "B"), nil},
		{strV("A", "B", "C"), []V{vStr("9223372036854775808"), vStr("K"), vStr("18446744073709551616"), vStr("L"), vStr("a"), vStr("M")}},
		{nil, []V{vStr("9223372036854775809"), vStr("K"), vStr("99999999999999999999"), vStr("L"), vStr("0000000000000000001"), vStr("N")}},
	}
	for _, name := range bigNames {
		for _, tpl := range []string{"{" + name + "}", "{" + name + "!r}", "{0}{" + name + "}", "{" + name + "}{1}", "{}{" + name + "}", "{" + name + "}{}",
			"{a}{" + name + "}x", "{" + name + ":}", "{" + name + "!x}", "}}{" + name + "}{{", "{" + name + ".}", "{-" + name + "}", "{" + name + " }"} {
			recv := vStr(tpl)
			for _, a := range bigSets {
				x := recv
				s.do(Case{Op: "call", Kind: "string", X: &x, Name: "format", Args: append([]V{}, a.pos...), Kw: append([]V{}, a.kw...), Class: "format:bignum"})
			}
		}
	}
	// % interpolation
	convs := []string{"%s", "%r", "%d", "%x", "%X", "%o", "%i", "%c", "%%", "%(a)s", "%(b)r", "%(a)d", "%(c)s", "%", "%z", "x", "%(a", "%e"}
	d1 := vDict(vStr("a"), vStr("A"), vStr("b"), vInt(2))
	ops := []V{vStr("A"), vInt(5), vInt(-255), vTuple(vInt(1)), vTuple(vStr("a"), vStr("b")), vTuple(vStr("a"), vInt(2)), vTuple(vInt(1), vInt(2), vInt(3)), vTuple(),
		d1, vDict(), vList(vInt(1), vStr("x")), vNone(), vBool(true), vF(2.0), vF(2.5), q, vTuple(q, nl), vTuple(vInt(97), vStr("z")), vBytes("b")}
	emitp := func(tpl string) {
		x := vStr(tpl)
		for _, o := range ops {
			s.do(Case{Op: "bin", Kind: "string", X: &x, Name: "%", Args: []V{o}, Class: "interp"})
		}
	}
	emitp("")
	for _, a := range convs {
		emitp(a)
		for _, b := range convs {
			emitp(a + b)
			if !quick {
				for _, c := range convs {
					emitp(a + b + c)
				}
			}
		}
	}
	for i := 0; i < n/2; i++ {
		t := ""
		for k := 3 + s.r.Intn(2); k > 0; k-- {
			t += convs[s.r.Intn(len(convs))]
		}
		emitp(t)
	}
}

// genAlias: the result of a sequence operator on a list is a new list.  For every
// list-producing operation (x*n, n*x, x+y, y+x, x+x, x[lo:hi:step], list(x), sorted(x),
// reversed(x)) on lists of length 0..3, with counts -1..3, neighbours of every length
// and every slice that can return the whole list, the result OR an operand is then
// mutated in place (element assignment, append, pop+append, clear, insert) and all
// lists are observed: value comparison of the product alone never shows sharing.
func genAlias(s *sink, quick bool) {
	s.pyEvery["alias"] = 2
	muts := []string{"set-result", "append-result", "popappend-result", "clear-result", "insert-result",
		"set-operand", "append-operand", "popappend-operand", "clear-operand", "insert-operand"}
	for n := 0; n <= 3; n++ {
		x := intList([]int64{3, 1, 2}[:n]...)
		do := func(op string, a V, ms []string) {
			for _, m := range ms {
				xx := x
				s.do(Case{Op: "alias", Kind: "list", X: &xx, Name: op, Args: []V{a}, Key: m, Class: "alias"})
			}
		}
		for k := int64(-1); k <= 3; k++ {
			do("mul", vInt(k), muts)
			do("rmul", vInt(k), muts)
		}
		for m := 0; m <= 2; m++ {
			y := intList([]int64{7, 8}[:m]...)
			withOther := append(append([]string{}, muts...), "set-other", "append-other", "popappend-other", "clear-other", "insert-other")
			do("add", y, withOther)
			do("radd", y, withOther)
		}
		do("addself", vInt(0), muts)
		for _, f := range []string{"list", "sorted", "reversed"} {
			do(f, vInt(0), muts)
		}
		idx := []V{vNone(), vInt(0), vInt(1), vInt(int64(n)), vInt(-int64(n)), vInt(int64(n) + 2), vInt(-1)}
		for _, lo := range idx {
			for _, hi := range idx {
				for _, st := range []V{vNone(), vInt(1), vInt(2), vInt(-1)} {
					do("slice", vTuple(lo, hi, st), []string{"set-result", "append-result", "set-operand", "popappend-operand", "clear-operand"})
				}
			}
		}
	}
}
