// c12: runs operation histories on the real starlark Dict / Set (Go API and
// Starlark methods/operators) with keys whose Hash() the generator chooses, and
// compares with a naive association list after every operation.
//
//	c12 exhaustive -len L -kind dict|set -route go|star -hashes zero3|same5|prefill
//	c12 random     -n H -ops N -kind dict|set -route go|star -seed S
//	c12 sample     -n H -maxops M -seed S
//	c12 guard      -n H -maxops M -seed S   (freeze / iterate / Done events; see guard.go)
//	c12 replay     (reads one {"tkind","route","hashes","init","ops"} object on stdin)
//
// One JSON object per line on stdout.
package main

import (
	"encoding/json"
	"flag"
	"fmt"
	"os"
	"runtime/debug"
	"runtime/pprof"
	"sort"
	"strings"
	"sync"
	"sync/atomic"
	"time"

	"go.starlark.net/starlark"
	"go.starlark.net/syntax"

	"verifharness/internal/hx"
)

// ---------------------------------------------------------------- keys

// HK is a hashable value whose hash the generator picks.
type HK struct {
	id   int
	hash uint32
}

func (k *HK) String() string        { return fmt.Sprintf("k%d", k.id) }
func (k *HK) Type() string          { return "hk" }
func (k *HK) Freeze()               {}
func (k *HK) Truth() starlark.Bool  { return true }
func (k *HK) Hash() (uint32, error) { return k.hash, nil }
func (k *HK) CompareSameType(op syntax.Token, y starlark.Value, depth int) (bool, error) {
	o := y.(*HK)
	switch op {
	case syntax.EQL:
		return k.id == o.id, nil
	case syntax.NEQ:
		return k.id != o.id, nil
	}
	return false, fmt.Errorf("hk: no ordering")
}

// ---------------------------------------------------------------- protocol

type Op struct {
	Op   string   `json:"op"`
	K    int      `json:"k"`
	V    int      `json:"v"`
	L    [][2]int `json:"l,omitempty"`
	Ks   []int    `json:"ks,omitempty"`
	Form int      `json:"form,omitempty"` // derived ops, star route: 0 method with a list, 1 operator / collection operand
}

type Out struct {
	T     string `json:"t"` // none val kv
	Found bool   `json:"found,omitempty"`
	K     int    `json:"k,omitempty"`
	V     int    `json:"v,omitempty"`
}

type Obs struct {
	Out   Out      `json:"out"`
	Len   int      `json:"len"`
	Items [][2]int `json:"items"`
}

type History struct {
	TKind  string   `json:"tkind"`
	Route  string   `json:"route"`
	Hashes [][2]int `json:"hashes"` // id, hash
	Init   int      `json:"init"`   // -1 zero value, n: NewDict(n)/NewSet(n)
	Ops    []Op     `json:"ops"`
}

type Cov struct {
	MaxChain int  `json:"maxchain"`
	NB       int  `json:"nb"`
	Grew     bool `json:"grew"`
	Reused   bool `json:"reused"`
}

// ---------------------------------------------------------------- oracle: association list

type kv struct{ k, v int }
type AL []kv

func (l AL) find(k int) int {
	for i := range l {
		if l[i].k == k {
			return i
		}
	}
	return -1
}
func (l AL) insert(k, v int) AL {
	if i := l.find(k); i >= 0 {
		l[i].v = v
		return l
	}
	return append(l, kv{k, v})
}
func (l AL) remove(k int) (AL, int, bool) {
	i := l.find(k)
	if i < 0 {
		return l, 0, false
	}
	v := l[i].v
	copy(l[i:], l[i+1:])
	return l[:len(l)-1], v, true
}
func has(ks []int, k int) bool {
	for _, x := range ks {
		if x == k {
			return true
		}
	}
	return false
}

// step applies one operation to the association list (Spec.v spec_step).
func (l AL) step(o Op) (AL, Out) {
	switch o.Op {
	case "insert":
		return l.insert(o.K, o.V), Out{T: "none"}
	case "lookup":
		if i := l.find(o.K); i >= 0 {
			return l, Out{T: "val", Found: true, V: l[i].v}
		}
		return l, Out{T: "val"}
	case "delete":
		l2, v, ok := l.remove(o.K)
		return l2, Out{T: "val", Found: ok, V: v}
	case "discard":
		l2, _, _ := l.remove(o.K)
		return l2, Out{T: "none"}
	case "clear":
		return l[:0], Out{T: "none"}
	case "popfirst":
		if len(l) == 0 {
			return l, Out{T: "kv"}
		}
		f := l[0]
		l2, _, _ := l.remove(f.k)
		return l2, Out{T: "kv", Found: true, K: f.k, V: f.v}
	case "setdefault":
		if i := l.find(o.K); i >= 0 {
			return l, Out{T: "val", Found: true, V: l[i].v}
		}
		return append(l, kv{o.K, o.V}), Out{T: "val", Found: true, V: o.V}
	case "update", "dictunion":
		for _, p := range o.L {
			l = l.insert(p[0], p[1])
		}
		return l, Out{T: "none"}
	case "setunion":
		r := make(AL, 0, len(l)+len(o.Ks))
		for _, e := range l {
			r = append(r, kv{e.k, 0})
		}
		for _, k := range o.Ks {
			if r.find(k) < 0 {
				r = append(r, kv{k, 0})
			}
		}
		return r, Out{T: "none"}
	case "setinter":
		r := make(AL, 0, len(l))
		for _, e := range l {
			if has(o.Ks, e.k) {
				r = append(r, kv{e.k, 0})
			}
		}
		return r, Out{T: "none"}
	case "setdiff":
		r := make(AL, 0, len(l))
		for _, e := range l {
			if !has(o.Ks, e.k) {
				r = append(r, kv{e.k, 0})
			}
		}
		return r, Out{T: "none"}
	case "issubset": // every element of l occurs in ks
		for _, e := range l {
			if !has(o.Ks, e.k) {
				return l, Out{T: "bool"}
			}
		}
		return l, Out{T: "bool", Found: true}
	case "issuperset": // every element of ks is in l
		for _, k := range o.Ks {
			if l.find(k) < 0 {
				return l, Out{T: "bool"}
			}
		}
		return l, Out{T: "bool", Found: true}
	case "setsymdiff":
		r := make(AL, 0, len(l)+len(o.Ks))
		for _, e := range l {
			if !has(o.Ks, e.k) {
				r = append(r, kv{e.k, 0})
			}
		}
		for _, k := range o.Ks {
			if l.find(k) < 0 && r.find(k) < 0 {
				r = append(r, kv{k, 0})
			}
		}
		return r, Out{T: "none"}
	}
	panic("oracle: unknown op " + o.Op)
}

// ---------------------------------------------------------------- subject

var starSrc = `
def d_insert(x, k, v): x[k] = v
def d_lookup(x, k): return (k in x, x.get(k, -5), x.get(k))
def d_index(x, k): return x[k]
def d_delete(x, k): return x.pop(k)
def d_delete_dflt(x, k, m): return x.pop(k, m)
def d_clear(x): x.clear()
def d_popfirst(x): return x.popitem()
def d_setdefault(x, k, v): return x.setdefault(k, v)
def d_update(x, l): x.update(l)
def d_ior(x, y):
    x |= y
    return x
def d_union(x, y): return x | y
def d_obs(x): return (len(x), x.items(), x.keys(), [k for k in x])
def s_insert(x, k): x.add(k)
def s_lookup(x, k): return k in x
def s_delete(x, k): x.remove(k)
def s_discard(x, k): x.discard(k)
def s_clear(x): x.clear()
def s_popfirst(x): return x.pop()
def s_update(x, l): x.update(l)
def s_ior(x, y):
    x |= y
    return x
def s_union_m(x, l): return x.union(l)
def s_union_o(x, y): return x | y
def s_inter_m(x, l): return x.intersection(l)
def s_inter_o(x, y): return x & y
def s_diff_m(x, l): return x.difference(l)
def s_diff_o(x, y): return x - y
def s_symdiff_m(x, l): return x.symmetric_difference(l)
def s_symdiff_o(x, y): return x ^ y
def s_issubset_m(x, l): return x.issubset(l)
def s_issuperset_m(x, l): return x.issuperset(l)
def s_cmp(x, y): return (x <= y, x >= y, x < y, x > y, x == y, x != y)
def s_obs(x): return (len(x), list(x), [k for k in x])
`

var starFns starlark.StringDict

func loadStar() {
	th := &starlark.Thread{Name: "c12"}
	g, err := starlark.ExecFileOptions(&syntax.FileOptions{Set: true}, th, "c12.star", starSrc, nil)
	if err != nil {
		panic(err)
	}
	starFns = g
}

type Subject struct {
	tkind, route string
	keys         map[int]*HK
	x            starlark.Value // *Dict or *Set
	th           *starlark.Thread
	// coverage (hook, never compared)
	cov     Cov
	vacated map[[2]int]bool
	lastNB  int
	opCache map[opKey]starlark.Value // exhaustive mode only
	lastY   starlark.Value           // right operand of the derived operation just applied
	refs    []aliasRef               // operands of earlier derived operations: they must never change
}

// aliasRef: an operand of a derived operation and what it held when the operation ran.
type aliasRef struct {
	op   string
	side string
	v    starlark.Value
	snap [][2]int
}

func isDerived(op string) bool {
	switch op {
	case "dictunion", "setunion", "setinter", "setdiff", "setsymdiff":
		return true
	}
	return false
}

// readItems: the items of a dict / elements of a set (value 0), at most len+1 steps.
func readItems(v starlark.Value) [][2]int {
	out := [][2]int{}
	n := starlark.Len(v)
	switch v := v.(type) {
	case *starlark.Dict:
		it := v.Iterate()
		defer it.Done()
		var k starlark.Value
		for c := 0; it.Next(&k) && c <= n; c++ {
			x, _, _ := v.Get(k)
			out = append(out, [2]int{k.(*HK).id, val(x)})
		}
	case *starlark.Set:
		it := v.Iterate()
		defer it.Done()
		var k starlark.Value
		for c := 0; it.Next(&k) && c <= n; c++ {
			out = append(out, [2]int{k.(*HK).id, 0})
		}
	}
	return out
}

func sameRaw(a, b [][2]int) bool {
	if len(a) != len(b) {
		return false
	}
	for i := range a {
		if a[i] != b[i] {
			return false
		}
	}
	return true
}

// noteDerived: a derived operation must return a FRESH collection; remember its operands.
func (s *Subject) noteDerived(o Op, x0 starlark.Value) {
	if s.x == x0 {
		panic(violation{msg: "the result of " + o.Op + " is the left operand itself, not a new collection", cls: "aliases-operand"})
	}
	if s.lastY != nil && s.x == s.lastY {
		panic(violation{msg: "the result of " + o.Op + " is the right operand itself, not a new collection", cls: "aliases-operand"})
	}
	s.refs = append(s.refs, aliasRef{o.Op, "left", x0, readItems(x0)})
	switch s.lastY.(type) {
	case *starlark.Dict, *starlark.Set:
		if s.opCache == nil || !s.isCachedOperand(s.lastY) {
			s.refs = append(s.refs, aliasRef{o.Op, "right", s.lastY, readItems(s.lastY)})
		}
	}
	if len(s.refs) > 6 {
		s.refs = s.refs[len(s.refs)-6:]
	}
}

func (s *Subject) isCachedOperand(v starlark.Value) bool {
	for _, c := range s.opCache {
		if c == v {
			return true
		}
	}
	return false
}

// checkRefs: no operand of an earlier derived operation may have changed since.
func (s *Subject) checkRefs() (string, string) {
	for _, r := range s.refs {
		if now := readItems(r.v); !sameRaw(now, r.snap) {
			return r.op, fmt.Sprintf("the %s operand of an earlier %s changed when the result was used: it held %v, now %v (result and operand share storage)", r.side, r.op, r.snap, now)
		}
	}
	return "", ""
}

var (
	sentinelA = &HK{9001, 7}
	sentinelB = &HK{9002, 0}
)

func putKey(v starlark.Value, k *HK) {
	switch v := v.(type) {
	case *starlark.Dict:
		must(v.SetKey(k, starlark.MakeInt(77)))
	case *starlark.Set:
		must(v.Insert(k))
	}
}
func dropKey(v starlark.Value, k *HK) {
	switch v := v.(type) {
	case *starlark.Dict:
		v.Delete(k)
	case *starlark.Set:
		v.Delete(k)
	}
}

// aliasProbes: after the last operation of a history, every derived operation is applied to
// the current collection with an EMPTY and a small second operand (method and operator forms);
// the result must equal the association list, and then result, left operand and right operand
// are mutated one after the other while the other two must stay as they were.
func (s *Subject) checkAliasProbes(l AL) (string, string) {
	var probes []Op
	if s.tkind == "dict" {
		probes = []Op{{Op: "dictunion"}, {Op: "dictunion", L: [][2]int{{4, 94}, {0, 90}}}}
	} else {
		for _, name := range []string{"setunion", "setinter", "setdiff", "setsymdiff"} {
			probes = append(probes, Op{Op: name, Ks: []int{}, Form: 1}, Op{Op: name, Ks: []int{2, 0, 3}, Form: 1}, Op{Op: name, Ks: []int{}})
		}
	}
	saveCache, saveRefs := s.opCache, s.refs
	s.opCache = nil
	defer func() { s.opCache, s.refs = saveCache, saveRefs }()
	x0 := s.x
	for _, p := range probes {
		s.x = x0
		want, _ := append(AL(nil), l...).step(p)
		// noteDerived panics with class aliases-operand when the result IS an operand
		if msg := func() (msg string) {
			defer func() {
				if e := recover(); e != nil {
					v, ok := e.(violation)
					if !ok {
						panic(e)
					}
					msg = fmt.Sprintf("%s with operand %v%v on %v: %s (they share storage)", p.Op, p.L, p.Ks, alItems(l), v.msg)
				}
			}()
			s.apply(p)
			return ""
		}(); msg != "" {
			s.x = x0
			return p.Op, msg
		}
		r, y := s.x, s.lastY
		if got := readItems(r); !sameItems(got, want) {
			return p.Op, fmt.Sprintf("%s with operand %v%v on %v gives %v, the association list gives %v", p.Op, p.L, p.Ks, alItems(l), got, alItems(want))
		}
		snapX, snapR := readItems(x0), readItems(r)
		var snapY [][2]int
		_, yIsColl := y.(*starlark.Set)
		if _, ok := y.(*starlark.Dict); ok {
			yIsColl = true
		}
		if yIsColl {
			snapY = readItems(y)
		}
		describe := func(what string) string {
			return fmt.Sprintf("%s with operand %v%v on %v: after changing %s, left operand %v -> %v, result %v -> %v (they share storage)", p.Op, p.L, p.Ks, alItems(l), what, snapX, readItems(x0), snapR, readItems(r))
		}
		// mutate the result: the operands must not move
		putKey(r, sentinelA)
		if !sameRaw(readItems(x0), snapX) || (yIsColl && !sameRaw(readItems(y), snapY)) {
			dropKey(r, sentinelA)
			return p.Op, describe("the result")
		}
		dropKey(r, sentinelA)
		// mutate the left operand: the result must not move
		putKey(x0, sentinelB)
		moved := !sameRaw(readItems(r), snapR)
		dropKey(x0, sentinelB)
		if moved {
			return p.Op, describe("the left operand")
		}
		// mutate the right operand
		if yIsColl {
			putKey(y, sentinelB)
			moved := !sameRaw(readItems(r), snapR) || !sameRaw(readItems(x0), snapX)
			dropKey(y, sentinelB)
			if moved {
				return p.Op, describe("the right operand")
			}
		}
	}
	s.x = x0
	return "", ""
}

type violation struct {
	msg string
	cls string // finding class suffix; "" = "inconsistent"
}

func (v violation) class() string {
	if v.cls != "" {
		return v.cls
	}
	return "inconsistent"
}

func mkKeys(hashes [][2]int) map[int]*HK {
	keys := map[int]*HK{}
	for _, p := range hashes {
		keys[p[0]] = &HK{p[0], uint32(p[1])}
	}
	return keys
}

func newSubject(tkind, route string, hashes [][2]int, init int) *Subject {
	return newSubjectK(tkind, route, mkKeys(hashes), &starlark.Thread{Name: "c12"}, init)
}

func newSubjectK(tkind, route string, keys map[int]*HK, th *starlark.Thread, init int) *Subject {
	s := &Subject{tkind: tkind, route: route, keys: keys, th: th}
	if tkind == "dict" {
		if init < 0 {
			s.x = new(starlark.Dict)
		} else {
			s.x = starlark.NewDict(init)
		}
	} else {
		if init < 0 {
			s.x = new(starlark.Set)
		} else {
			s.x = starlark.NewSet(init)
		}
	}
	return s
}

func (s *Subject) key(id int) starlark.Value {
	k, ok := s.keys[id]
	if !ok {
		panic(fmt.Sprintf("no hash for key %d", id))
	}
	return k
}

// mkVal: stored values are positive ints, 0 stands for None (a legitimate stored value).
func mkVal(n int) starlark.Value {
	if n == 0 {
		return starlark.None
	}
	return starlark.MakeInt(n)
}

func val(v starlark.Value) int {
	if v == starlark.None || v == nil {
		return 0
	}
	if i, ok := v.(starlark.Int); ok {
		n, _ := i.Int64()
		return int(n)
	}
	panic(fmt.Sprintf("unexpected value %v", v))
}

func (s *Subject) call(name string, args ...starlark.Value) (starlark.Value, error) {
	return starlark.Call(s.th, starFns[name], starlark.Tuple(args), nil)
}

// operand collections of the exhaustive alphabet are fixed slices: build them once per worker
// (they are only read by the operations under test)
func (s *Subject) cached(ks []int, isSet bool) starlark.Value {
	if s.opCache == nil || len(ks) == 0 {
		return nil
	}
	return s.opCache[opKey{&ks[0], len(ks), isSet}]
}
func (s *Subject) remember(ks []int, isSet bool, v starlark.Value) {
	if s.opCache == nil || len(ks) == 0 {
		return
	}
	for _, f := range [][]int{exhUni, exhInt, exhDif, exhSym, exhIntOp, exhSymOp, probeAll, probeSome} {
		if &f[0] == &ks[0] && len(f) == len(ks) {
			s.opCache[opKey{&ks[0], len(ks), isSet}] = v
			return
		}
	}
}

type opKey struct {
	p     *int
	n     int
	isSet bool
}

func (s *Subject) keyList(ks []int) *starlark.List {
	if v := s.cached(ks, false); v != nil {
		return v.(*starlark.List)
	}
	l := s.keyList0(ks)
	s.remember(ks, false, l)
	return l
}
func (s *Subject) keySet(ks []int) *starlark.Set {
	if v := s.cached(ks, true); v != nil {
		return v.(*starlark.Set)
	}
	l := s.keySet0(ks)
	s.remember(ks, true, l)
	return l
}
func (s *Subject) keyList0(ks []int) *starlark.List {
	el := make([]starlark.Value, len(ks))
	for i, k := range ks {
		el[i] = s.key(k)
	}
	return starlark.NewList(el)
}
func (s *Subject) keySet0(ks []int) *starlark.Set {
	r := new(starlark.Set)
	for _, k := range ks {
		r.Insert(s.key(k))
	}
	return r
}
func (s *Subject) pairList(l [][2]int) *starlark.List {
	el := make([]starlark.Value, len(l))
	for i, p := range l {
		el[i] = starlark.Tuple{s.key(p[0]), mkVal(p[1])}
	}
	return starlark.NewList(el)
}
func (s *Subject) pairDict(l [][2]int) *starlark.Dict {
	r := new(starlark.Dict)
	for _, p := range l {
		r.SetKey(s.key(p[0]), mkVal(p[1]))
	}
	return r
}

func must(err error) {
	if err != nil {
		panic(violation{msg: "unexpected error: " + err.Error()})
	}
}

// apply runs one operation on the real collection.
func (s *Subject) apply(o Op) Out {
	x0 := s.x
	s.lastY = nil
	var out Out
	if s.tkind == "dict" {
		out = s.applyDict(o)
	} else {
		out = s.applySet(o)
	}
	if isDerived(o.Op) {
		s.noteDerived(o, x0)
	}
	return out
}

func (s *Subject) applyDict(o Op) Out {
	d := s.x.(*starlark.Dict)
	star := s.route == "star"
	switch o.Op {
	case "insert":
		if star {
			_, err := s.call("d_insert", d, s.key(o.K), mkVal(o.V))
			must(err)
		} else {
			must(d.SetKey(s.key(o.K), mkVal(o.V)))
		}
		return Out{T: "none"}
	case "lookup":
		if star {
			r, err := s.call("d_lookup", d, s.key(o.K))
			must(err)
			t := r.(starlark.Tuple)
			found := bool(t[0].(starlark.Bool))
			if found != (val(t[1]) != -5) {
				panic(violation{msg: "`in` and get(k, default) disagree"})
			}
			if found && t[2] != t[1] || !found && t[2] != starlark.None {
				panic(violation{msg: "get(k) and get(k, default) disagree"})
			}
			iv, err := s.call("d_index", d, s.key(o.K))
			if (err == nil) != found || (found && iv != t[1]) {
				panic(violation{msg: "`in` / get and d[k] disagree"})
			}
			if !found {
				return Out{T: "val"}
			}
			return Out{T: "val", Found: true, V: val(t[1])}
		}
		v, found, err := d.Get(s.key(o.K))
		must(err)
		return Out{T: "val", Found: found, V: val(v)}
	case "delete":
		if star {
			if o.Form == 1 {
				r, err := s.call("d_delete_dflt", d, s.key(o.K), starlark.MakeInt(-1))
				must(err)
				if val(r) == -1 {
					return Out{T: "val"}
				}
				return Out{T: "val", Found: true, V: val(r)}
			}
			r, err := s.call("d_delete", d, s.key(o.K))
			if err != nil {
				return Out{T: "val"} // "missing key"
			}
			return Out{T: "val", Found: true, V: val(r)}
		}
		v, found, err := d.Delete(s.key(o.K))
		must(err)
		return Out{T: "val", Found: found, V: val(v)}
	case "clear":
		if star {
			_, err := s.call("d_clear", d)
			must(err)
		} else {
			must(d.Clear())
		}
		return Out{T: "none"}
	case "popfirst":
		if star {
			r, err := s.call("d_popfirst", d)
			if err != nil {
				return Out{T: "kv"} // "empty dict"
			}
			t := r.(starlark.Tuple)
			return Out{T: "kv", Found: true, K: t[0].(*HK).id, V: val(t[1])}
		}
		it := d.Iterate()
		var k starlark.Value
		ok := it.Next(&k)
		it.Done()
		if !ok {
			return Out{T: "kv"}
		}
		v, found, err := d.Delete(k)
		must(err)
		if !found {
			panic(violation{msg: "first key not found by Delete"})
		}
		return Out{T: "kv", Found: true, K: k.(*HK).id, V: val(v)}
	case "setdefault":
		if star {
			r, err := s.call("d_setdefault", d, s.key(o.K), mkVal(o.V))
			must(err)
			return Out{T: "val", Found: true, V: val(r)}
		}
		v, found, err := d.Get(s.key(o.K))
		must(err)
		if found {
			return Out{T: "val", Found: true, V: val(v)}
		}
		must(d.SetKey(s.key(o.K), mkVal(o.V)))
		return Out{T: "val", Found: true, V: o.V}
	case "update":
		if star {
			if o.Form == 1 && noDupPairs(o.L) {
				r, err := s.call("d_ior", d, s.pairDict(o.L))
				must(err)
				if r != starlark.Value(d) {
					panic(violation{msg: "|= rebinds"})
				}
			} else {
				_, err := s.call("d_update", d, s.pairList(o.L))
				must(err)
			}
		} else {
			for _, p := range o.L {
				must(d.SetKey(s.key(p[0]), mkVal(p[1])))
			}
		}
		return Out{T: "none"}
	case "dictunion":
		y := new(starlark.Dict)
		for _, p := range o.L {
			must(y.SetKey(s.key(p[0]), mkVal(p[1])))
		}
		s.lastY = y
		if star {
			r, err := s.call("d_union", d, y)
			must(err)
			s.x = r
		} else {
			s.x = d.Union(y)
		}
		s.rebound()
		return Out{T: "none"}
	}
	panic("dict: unknown op " + o.Op)
}

func noDupPairs(l [][2]int) bool {
	seen := map[int]bool{}
	for _, p := range l {
		if seen[p[0]] {
			return false
		}
		seen[p[0]] = true
	}
	return true
}
func noDup(l []int) bool {
	seen := map[int]bool{}
	for _, p := range l {
		if seen[p] {
			return false
		}
		seen[p] = true
	}
	return true
}

func (s *Subject) rebound() {
	s.vacated = nil
	s.lastNB = 0
}

func (s *Subject) applySet(o Op) Out {
	x := s.x.(*starlark.Set)
	star := s.route == "star"
	switch o.Op {
	case "insert":
		if star {
			_, err := s.call("s_insert", x, s.key(o.K))
			must(err)
		} else {
			must(x.Insert(s.key(o.K)))
		}
		return Out{T: "none"}
	case "setdefault": // s.add(k): Has, Insert when absent
		if star {
			_, err := s.call("s_insert", x, s.key(o.K))
			must(err)
		} else {
			found, err := x.Has(s.key(o.K))
			must(err)
			if !found {
				must(x.Insert(s.key(o.K)))
			}
		}
		return Out{T: "val", Found: true}
	case "lookup":
		var found bool
		if star {
			r, err := s.call("s_lookup", x, s.key(o.K))
			must(err)
			found = bool(r.(starlark.Bool))
		} else {
			f, err := x.Has(s.key(o.K))
			must(err)
			found = f
		}
		return Out{T: "val", Found: found}
	case "delete":
		if star {
			_, err := s.call("s_delete", x, s.key(o.K))
			return Out{T: "val", Found: err == nil}
		}
		found, err := x.Delete(s.key(o.K))
		must(err)
		return Out{T: "val", Found: found}
	case "discard":
		if star {
			_, err := s.call("s_discard", x, s.key(o.K))
			must(err)
		} else {
			found, err := x.Has(s.key(o.K))
			must(err)
			if found {
				_, err := x.Delete(s.key(o.K))
				must(err)
			}
		}
		return Out{T: "none"}
	case "clear":
		if star {
			_, err := s.call("s_clear", x)
			must(err)
		} else {
			must(x.Clear())
		}
		return Out{T: "none"}
	case "popfirst":
		if star {
			r, err := s.call("s_popfirst", x)
			if err != nil {
				return Out{T: "kv"}
			}
			return Out{T: "kv", Found: true, K: r.(*HK).id}
		}
		it := x.Iterate()
		var k starlark.Value
		ok := it.Next(&k)
		it.Done()
		if !ok {
			return Out{T: "kv"}
		}
		found, err := x.Delete(k)
		must(err)
		if !found {
			panic(violation{msg: "first element not found by Delete"})
		}
		return Out{T: "kv", Found: true, K: k.(*HK).id}
	case "update":
		ks := make([]int, len(o.L))
		for i, p := range o.L {
			ks[i] = p[0]
		}
		if star {
			if o.Form == 1 {
				r, err := s.call("s_ior", x, s.keySet(ks))
				must(err)
				// set |= set is not in place: x | y rebinds
				s.x = r
				if r != starlark.Value(x) {
					s.rebound()
				}
			} else {
				_, err := s.call("s_update", x, s.keyList(ks))
				must(err)
			}
		} else {
			it := s.keyList(ks).Iterate()
			err := x.InsertAll(it)
			it.Done()
			must(err)
		}
		return Out{T: "none"}
	case "issubset", "issuperset":
		var b bool
		if star {
			if o.Form == 1 {
				// operators against a set operand; all six comparisons must be coherent
				y := s.keySet(o.Ks)
				r, err := s.call("s_cmp", x, y)
				must(err)
				t := r.(starlark.Tuple)
				le, ge, lt, gt, eq, ne := bool(t[0].(starlark.Bool)), bool(t[1].(starlark.Bool)), bool(t[2].(starlark.Bool)), bool(t[3].(starlark.Bool)), bool(t[4].(starlark.Bool)), bool(t[5].(starlark.Bool))
				if eq != (le && ge) || ne == eq || lt != (le && !ge) || gt != (ge && !le) {
					panic(violation{msg: fmt.Sprintf("set comparisons incoherent: <= %v >= %v < %v > %v == %v != %v", le, ge, lt, gt, eq, ne)})
				}
				b = le
				if o.Op == "issuperset" {
					b = ge
				}
			} else {
				r, err := s.call("s_"+o.Op+"_m", x, s.keyList(o.Ks))
				must(err)
				b = bool(r.(starlark.Bool))
			}
		} else {
			var it starlark.Iterator
			if o.Form == 1 {
				it = s.keySet(o.Ks).Iterate()
			} else {
				it = s.keyList(o.Ks).Iterate()
			}
			var err error
			if o.Op == "issubset" {
				b, err = x.IsSubset(it)
			} else {
				b, err = x.IsSuperset(it)
			}
			it.Done()
			must(err)
		}
		return Out{T: "bool", Found: b}
	case "setunion", "setinter", "setdiff", "setsymdiff":
		var r starlark.Value
		var err error
		if star {
			name := map[string]string{"setunion": "s_union", "setinter": "s_inter", "setdiff": "s_diff", "setsymdiff": "s_symdiff"}[o.Op]
			if o.Form == 1 {
				y := s.keySet(o.Ks)
				s.lastY = y
				r, err = s.call(name+"_o", x, y)
			} else {
				r, err = s.call(name+"_m", x, s.keyList(o.Ks))
			}
		} else {
			var it starlark.Iterator
			if o.Form == 1 {
				y := s.keySet(o.Ks)
				s.lastY = y
				it = y.Iterate()
			} else {
				it = s.keyList(o.Ks).Iterate()
			}
			switch o.Op {
			case "setunion":
				r, err = x.Union(it)
			case "setinter":
				r, err = x.Intersection(it)
			case "setdiff":
				r, err = x.Difference(it)
			case "setsymdiff":
				r, err = x.SymmetricDifference(it)
			}
			it.Done()
		}
		must(err)
		s.x = r
		s.rebound()
		return Out{T: "none"}
	}
	panic("set: unknown op " + o.Op)
}

// boundedWalk iterates at most Len()+1 steps: a cyclic or overlong order list would
// otherwise make Keys()/Items() run (and allocate) forever.
func (s *Subject) boundedWalk() {
	n := starlark.Len(s.x)
	it := starlark.Iterate(s.x)
	defer it.Done()
	var k starlark.Value
	c := 0
	for it.Next(&k) {
		c++
		if c > n {
			panic(violation{msg: fmt.Sprintf("iteration yields more than len()=%d elements (order list cyclic or longer than len)", n)})
		}
		if k == nil {
			panic(violation{msg: "iteration yields a nil key (order list runs through an empty slot)"})
		}
	}
}

// observe reads len and the items in iteration order.
func (s *Subject) observe() (int, [][2]int) {
	s.boundedWalk()
	if s.tkind == "dict" {
		d := s.x.(*starlark.Dict)
		if s.route == "star" {
			r, err := s.call("d_obs", d)
			must(err)
			t := r.(starlark.Tuple)
			n, _ := starlark.AsInt32(t[0])
			items := t[1].(*starlark.List)
			keys := t[2].(*starlark.List)
			iter := t[3].(*starlark.List)
			out := make([][2]int, items.Len())
			if keys.Len() != items.Len() || iter.Len() != items.Len() {
				panic(violation{msg: "items / keys / iteration lengths differ"})
			}
			for i := 0; i < items.Len(); i++ {
				p := items.Index(i).(starlark.Tuple)
				out[i] = [2]int{p[0].(*HK).id, val(p[1])}
				if keys.Index(i) != p[0] || iter.Index(i) != p[0] {
					panic(violation{msg: "items / keys / iteration orders differ"})
				}
			}
			return n, out
		}
		items := d.Items()
		keys := d.Keys()
		out := make([][2]int, len(items))
		if len(keys) != len(items) {
			panic(violation{msg: "Items / Keys lengths differ"})
		}
		for i, p := range items {
			out[i] = [2]int{p[0].(*HK).id, val(p[1])}
			if keys[i] != p[0] {
				panic(violation{msg: "Items / Keys orders differ"})
			}
		}
		return d.Len(), out
	}
	x := s.x.(*starlark.Set)
	if s.route == "star" {
		r, err := s.call("s_obs", x)
		must(err)
		t := r.(starlark.Tuple)
		n, _ := starlark.AsInt32(t[0])
		l := t[1].(*starlark.List)
		l2 := t[2].(*starlark.List)
		if l.Len() != l2.Len() {
			panic(violation{msg: "list(s) / iteration lengths differ"})
		}
		out := make([][2]int, l.Len())
		for i := 0; i < l.Len(); i++ {
			out[i] = [2]int{l.Index(i).(*HK).id, 0}
			if l.Index(i) != l2.Index(i) {
				panic(violation{msg: "list(s) / iteration orders differ"})
			}
		}
		return n, out
	}
	var out [][2]int
	it := x.Iterate()
	var k starlark.Value
	for it.Next(&k) {
		out = append(out, [2]int{k.(*HK).id, 0})
	}
	it.Done()
	if out == nil {
		out = [][2]int{}
	}
	return x.Len(), out
}

// lookupKey: (found, value) through the route's lookup.
func (s *Subject) lookupKey(id int) (bool, int) {
	o := s.apply(Op{Op: "lookup", K: id})
	return o.Found, o.V
}

// coverage bookkeeping around one op (hook based; never compared)
func (s *Subject) before(o Op) (loc [2]int, had bool) {
	if o.Op == "delete" || o.Op == "discard" {
		if c, i, ok := starlark.VerifC12Locate(s.x, s.key(o.K)); ok {
			return [2]int{c, i}, true
		}
	}
	if o.Op == "popfirst" {
		it := starlark.Iterate(s.x)
		var k starlark.Value
		if it.Next(&k) {
			if c, i, ok := starlark.VerifC12Locate(s.x, k); ok {
				loc, had = [2]int{c, i}, true
			}
		}
		it.Done()
	}
	return
}
func (s *Subject) after(o Op, loc [2]int, had bool, lenBefore, lenAfter int) {
	nb, _, mc := starlark.VerifC12Shape(s.x)
	if mc > s.cov.MaxChain {
		s.cov.MaxChain = mc
	}
	if nb > s.cov.NB {
		s.cov.NB = nb
	}
	if s.lastNB != 0 && nb > s.lastNB {
		s.cov.Grew = true
		s.vacated = nil
	}
	s.lastNB = nb
	if o.Op == "clear" {
		s.vacated = nil
	}
	if had && lenAfter < lenBefore {
		if s.vacated == nil {
			s.vacated = map[[2]int]bool{}
		}
		s.vacated[loc] = true
	}
	if (o.Op == "insert" || o.Op == "setdefault") && lenAfter > lenBefore && len(s.vacated) > 0 {
		if c, i, ok := starlark.VerifC12Locate(s.x, s.key(o.K)); ok && s.vacated[[2]int{c, i}] {
			s.cov.Reused = true
			delete(s.vacated, [2]int{c, i})
		}
	}
}

// ---------------------------------------------------------------- comparison

func sameItems(a [][2]int, l AL) bool {
	if len(a) != len(l) {
		return false
	}
	for i := range a {
		if a[i][0] != l[i].k || a[i][1] != l[i].v {
			return false
		}
	}
	return true
}

// classify names the first differing observable.
func classify(o Op, got Obs, wantOut Out, want AL) string {
	if got.Out != wantOut {
		return o.Op + ":out"
	}
	gk := map[int]int{}
	for _, p := range got.Items {
		gk[p[0]]++
	}
	for _, c := range gk {
		if c > 1 {
			return o.Op + ":duplicate-key"
		}
	}
	if len(got.Items) != len(want) {
		return o.Op + ":membership"
	}
	for _, e := range want {
		if gk[e.k] == 0 {
			return o.Op + ":membership"
		}
	}
	if got.Len != len(want) {
		return o.Op + ":len"
	}
	for i := range want {
		if got.Items[i][0] != want[i].k {
			return o.Op + ":order"
		}
	}
	return o.Op + ":value"
}

func alItems(l AL) [][2]int {
	r := make([][2]int, len(l))
	for i, e := range l {
		r[i] = [2]int{e.k, e.v}
	}
	return r
}

type Mismatch struct {
	Kind  string `json:"kind"` // mismatch
	Mode  string `json:"mode"`
	Class string `json:"class"`
	History
	At   int    `json:"at"`
	Got  Obs    `json:"got"`
	Want Obs    `json:"want"`
	Msg  string `json:"msg,omitempty"`
}

// subsetProbes: read-only subset / superset queries compared after an operation (sets only).
func subsetProbes(l AL) []Op {
	cur := make([]int, 0, len(l))
	for i := len(l) - 1; i >= 0; i-- {
		cur = append(cur, l[i].k) // the same elements, reversed
	}
	var ps []Op
	for _, name := range []string{"issubset", "issuperset"} {
		ps = append(ps, Op{Op: name, Ks: probeAll}, Op{Op: name, Ks: probeSome}, Op{Op: name, Ks: cur, Form: 1})
	}
	return ps
}

var (
	probeAll  = []int{0, 1, 2, 3, 4}
	probeSome = []int{2, 0, 2}
)

// checkSubsetProbes returns a description of the first query that differs from the oracle.
func (s *Subject) checkSubsetProbes(l AL) string {
	if s.tkind != "set" {
		return ""
	}
	for _, p := range subsetProbes(l) {
		_, want := l.step(p)
		if got := s.apply(p); got != want {
			return fmt.Sprintf("%s: %s(%v) form %d = %v, the association list says %v", p.Op, p.Op, p.Ks, p.Form, got.Found, want.Found)
		}
	}
	return ""
}

// runHistory replays h; checkFrom: first op index whose observation is compared
// (lookups of `probe` keys are compared too).  Returns nil when all agree.
func runHistory(h History, checkFrom int, probe []int, cov *Cov) (mm *Mismatch) {
	at := 0
	defer func() {
		if e := recover(); e != nil {
			cls, msg := "panic", fmt.Sprint(e)
			if v, ok := e.(violation); ok {
				cls, msg = v.class(), v.msg
			}
			op := "init"
			if at < len(h.Ops) {
				op = h.Ops[at].Op
			}
			mm = &Mismatch{Kind: "mismatch", Class: op + ":" + cls, History: h, At: at, Msg: msg}
		}
	}()
	s := newSubject(h.TKind, h.Route, h.Hashes, h.Init)
	var l AL
	for i, o := range h.Ops {
		at = i
		var wo Out
		lenBefore := len(l)
		var loc [2]int
		var had bool
		if cov != nil {
			loc, had = s.before(o)
		}
		l, wo = l.step(o)
		go_ := s.apply(o)
		if cov != nil {
			s.after(o, loc, had, lenBefore, len(l))
		}
		if i < checkFrom {
			continue
		}
		n, items := s.observe()
		got := Obs{Out: go_, Len: n, Items: items}
		if go_ != wo || n != len(l) || !sameItems(items, l) {
			return &Mismatch{Kind: "mismatch", Class: classify(o, got, wo, l), History: h, At: i, Got: got, Want: Obs{wo, len(l), alItems(l)}}
		}
		for _, k := range probe {
			f, v := s.lookupKey(k)
			j := l.find(k)
			if f != (j >= 0) || (f && v != l[j].v) {
				cls := ":lookup-finds-dead-key"
				if j >= 0 {
					cls = ":lookup-misses-live-key"
					if f {
						cls = ":lookup-value"
					}
				}
				return &Mismatch{Kind: "mismatch", Class: o.Op + cls, History: h, At: i, Got: got, Want: Obs{wo, len(l), alItems(l)}, Msg: fmt.Sprintf("lookup of key %d: found=%v value=%d", k, f, v)}
			}
		}
		if op, msg := s.checkRefs(); msg != "" {
			return &Mismatch{Kind: "mismatch", Class: op + ":aliases-operand", History: h, At: i, Got: got, Want: Obs{wo, len(l), alItems(l)}, Msg: msg}
		}
		if probe != nil {
			if op, msg := s.checkAliasProbes(l); msg != "" {
				cls := ":aliases-operand"
				if !strings.Contains(msg, "share storage") {
					cls = ":probe-result"
				}
				return &Mismatch{Kind: "mismatch", Class: op + cls, History: h, At: i, Got: got, Want: Obs{wo, len(l), alItems(l)}, Msg: "applied after the last operation: " + msg}
			}
			if msg := s.checkSubsetProbes(l); msg != "" {
				return &Mismatch{Kind: "mismatch", Class: msg[:strings.Index(msg, ":")] + ":out", History: h, At: i, Got: got, Want: Obs{wo, len(l), alItems(l)}, Msg: "queried after the last operation: " + msg}
			}
		}
	}
	if cov != nil {
		*cov = s.cov
	}
	return nil
}

// with a deadline: a corrupted order list can make Keys() loop forever.
func runGuarded(h History, checkFrom int, probe []int, cov *Cov, d time.Duration) *Mismatch {
	ch := make(chan *Mismatch, 1)
	go func() { ch <- runHistory(h, checkFrom, probe, cov) }()
	select {
	case m := <-ch:
		return m
	case <-time.After(d):
		op := "?"
		if len(h.Ops) > 0 {
			op = h.Ops[len(h.Ops)-1].Op
		}
		return &Mismatch{Kind: "mismatch", Class: op + ":hang", History: h, At: len(h.Ops) - 1, Msg: "no answer within deadline (cyclic order list?)"}
	}
}

// shrink by greedy op deletion keeping the class.
func shrink(m *Mismatch, probe []int) *Mismatch {
	best := m
	for changed := true; changed; {
		changed = false
		for i := len(best.Ops) - 1; i >= 0; i-- {
			h := best.History
			h.Ops = append(append([]Op{}, best.Ops[:i]...), best.Ops[i+1:]...)
			if len(h.Ops) == 0 {
				continue
			}
			if m2 := runGuarded(h, 0, probe, nil, 5*time.Second); m2 != nil && m2.Class == best.Class {
				m2.Mode = best.Mode
				m2.Ops = m2.Ops[:m2.At+1]
				best = m2
				changed = true
				if i > len(best.Ops) {
					i = len(best.Ops)
				}
			}
		}
	}
	return best
}

// ---------------------------------------------------------------- exhaustive

type symbol func(pos int) Op

var (
	exhUpdD  = [][2]int{{1, 91}, {3, 0}, {1, 95}}
	exhUniD  = [][2]int{{4, 0}, {0, 90}}
	exhUpdS  = [][2]int{{3, 0}, {0, 0}, {3, 0}}
	exhUni   = []int{4, 1, 4}
	exhInt   = []int{2, 0, 2, 3}
	exhDif   = []int{1, 3, 1}
	exhSym   = []int{2, 4, 2, 4, 0}
	exhIntOp = []int{3, 2, 0}
	exhSymOp = []int{4, 2, 0}
)

func alphabet(tkind, route string, core bool) []symbol {
	var a []symbol
	add := func(f symbol) { a = append(a, f) }
	for k := 0; k < 5; k++ {
		k := k
		add(func(p int) Op { return Op{Op: "insert", K: k, V: vvk(tkind, p, k, 3)} })
		add(func(p int) Op {
			if tkind == "set" && p&1 == 1 {
				return Op{Op: "discard", K: k}
			}
			return Op{Op: "delete", K: k, Form: p & 1}
		})
	}
	add(func(p int) Op { return Op{Op: "popfirst"} })
	add(func(p int) Op { return Op{Op: "clear"} })
	if core {
		return a
	}
	if tkind == "dict" {
		for k := 0; k < 5; k++ {
			k := k
			add(func(p int) Op { return Op{Op: "setdefault", K: k, V: vvk(tkind, p, k+1, 4)} })
		}
		add(func(p int) Op { return Op{Op: "update", L: exhUpdD} })
		add(func(p int) Op { return Op{Op: "dictunion", L: exhUniD} })
	} else {
		add(func(p int) Op { return Op{Op: "update", L: exhUpdS} })
		add(func(p int) Op { return Op{Op: "setunion", Ks: exhUni} })
		add(func(p int) Op { return Op{Op: "setinter", Ks: exhInt} })
		add(func(p int) Op { return Op{Op: "setdiff", Ks: exhDif} })
		add(func(p int) Op { return Op{Op: "setsymdiff", Ks: exhSym} })
		// operator forms with a set operand (no duplicates)
		add(func(p int) Op { return Op{Op: "setinter", Ks: exhIntOp, Form: 1} })
		add(func(p int) Op { return Op{Op: "setsymdiff", Ks: exhSymOp, Form: 1} })
	}
	return a
}

func vv(tkind string, pos int) int {
	if tkind == "set" {
		return 0
	}
	return pos + 1
}

// vvk: the value an exhaustive insert / setdefault symbol stores: None (0) among the stored values
// for a third of the (position, key) pairs, so that every value-returning operation
// (get, pop, popitem, setdefault, d[k]) also meets keys present with the value None.
func vvk(tkind string, pos, k, mod int) int {
	if tkind == "set" || (pos+k)%mod == 0 {
		return 0
	}
	return pos + 1
}

func hashConfig(name string) (hashes [][2]int, prefix []Op) {
	switch name {
	case "zero3": // ids 0,1,2 share hash 0 (remapped to 1 by the table); 3 -> 1 (meets the remapped zeros), 4 -> 2
		return [][2]int{{0, 0}, {1, 0}, {2, 0}, {3, 1}, {4, 2}}, nil
	case "same5":
		return [][2]int{{0, 7}, {1, 7}, {2, 7}, {3, 7}, {4, 7}}, nil
	case "prefill":
		// three keys share a hash with 7 resident keys: the chain is full, inserts overflow / grow, deletes leave holes
		hs := [][2]int{{0, 5}, {1, 5}, {2, 5}, {3, 13}, {4, 6}}
		var pre []Op
		for i := 10; i < 17; i++ {
			hs = append(hs, [2]int{i, 5})
			pre = append(pre, Op{Op: "insert", K: i, V: 0})
		}
		pre = append(pre, Op{Op: "delete", K: 12}, Op{Op: "delete", K: 15})
		return hs, pre
	}
	panic("unknown hash config " + name)
}

type exhStats struct {
	histories, opExec, mismatches int64
	covChain, covGrew, covReused  int64
	first                         []*Mismatch
}

func exhaustive(tkind, route, hname string, L, workers int, core bool) {
	hashes, prefix := hashConfig(hname)
	if tkind == "set" {
		for i := range prefix {
			prefix[i].V = 0
		}
	}
	alpha := alphabet(tkind, route, core)
	probe := []int{0, 1, 2, 3, 4}
	// read-only probes (subset queries, aliasing of derived results) after the last operation:
	// on every 4th history, every 32nd in the long enumerations
	probeEvery := int64(4)
	if L >= 6 {
		probeEvery = 32
	}
	type job struct{ a, b int }
	jobs := make(chan job, 1024)
	// watchdog: a worker that does not finish a history within 30 s is reported and the run ends
	type slot struct {
		start int64 // unix nano of the current history, 0 = idle
		n     int32
		seq   [16]int32
	}
	slots := make([]slot, workers)
	doneCh := make(chan bool)
	go func() {
		for {
			select {
			case <-doneCh:
				return
			case <-time.After(3 * time.Second):
			}
			now := time.Now().UnixNano()
			for w := range slots {
				st := atomic.LoadInt64(&slots[w].start)
				if st != 0 && now-st > int64(30*time.Second) {
					n := int(atomic.LoadInt32(&slots[w].n))
					ops := append([]Op{}, prefix...)
					for i := 0; i < n; i++ {
						ops = append(ops, alpha[slots[w].seq[i]](i))
					}
					hx.Emit(&Mismatch{Kind: "mismatch", Mode: "exh:" + hname, Class: ops[len(ops)-1].Op + ":hang",
						History: History{TKind: tkind, Route: route, Hashes: hashes, Init: -1, Ops: ops}, At: len(ops) - 1,
						Msg: "no answer within 30 s (loop in the table?)"})
					hx.Emit(map[string]any{"kind": "exh", "tkind": tkind, "route": route, "hashes": hname, "len": L, "histories": 0, "op_executions": 0, "mismatches": 1, "aborted": "hang"})
					hx.Flush()
					os.Exit(0)
				}
			}
		}
	}()
	var mu sync.Mutex
	var tot exhStats
	var wg sync.WaitGroup
	for w := 0; w < workers; w++ {
		wg.Add(1)
		w := w
		go func() {
			defer wg.Done()
			var st exhStats
			keys := mkKeys(hashes)
			th := &starlark.Thread{Name: "c12"}
			// one Dict / Set object per worker, reset to the zero value before every history
			// (the same memory state as new(Dict); saves the allocator most of the run time)
			dict0, set0 := new(starlark.Dict), new(starlark.Set)
			subj := &Subject{tkind: tkind, route: route, keys: keys, th: th}
			opCache := map[opKey]starlark.Value{}
			seq := make([]int, 0, L)
			ops := make([]Op, 0, len(prefix)+L)
			// oracle state after the prefix and after each chosen symbol
			als := make([]AL, L+1)
			var al0 AL
			for _, o := range prefix {
				al0, _ = al0.step(o)
			}
			als[0] = al0
			var rec func()
			// run compares the LAST operation of prefix+seq (all shorter histories are enumerated too)
			run := func() {
				d := len(seq)
				ops = append(ops[:0], prefix...)
				for i, sidx := range seq {
					ops = append(ops, alpha[sidx](i))
				}
				last := ops[len(ops)-1]
				want, wo := append(AL(nil), als[d-1]...).step(last)
				als[d] = want
				st.histories++
				st.opExec += int64(len(ops))
				bad := false
				withCov := st.histories%16 == 0
				for i, x := range seq {
					slots[w].seq[i] = int32(x)
				}
				atomic.StoreInt32(&slots[w].n, int32(len(seq)))
				atomic.StoreInt64(&slots[w].start, time.Now().UnixNano())
				defer atomic.StoreInt64(&slots[w].start, 0)
				func() {
					defer func() {
						if e := recover(); e != nil {
							bad = true
						}
					}()
					s := subj
					*s = Subject{tkind: tkind, route: route, keys: keys, th: th, opCache: opCache}
					if tkind == "dict" {
						*dict0 = starlark.Dict{}
						s.x = dict0
					} else {
						*set0 = starlark.Set{}
						s.x = set0
					}
					for _, o := range ops[:len(ops)-1] {
						if withCov {
							loc, had := s.before(o)
							n0 := starlark.Len(s.x)
							s.apply(o)
							s.after(o, loc, had, n0, starlark.Len(s.x))
						} else {
							s.apply(o)
						}
					}
					var loc [2]int
					var had bool
					if withCov {
						loc, had = s.before(last)
					}
					got := s.apply(last)
					n, items := s.observe()
					if withCov {
						s.after(last, loc, had, len(als[d-1]), n)
						if s.cov.MaxChain > 1 {
							st.covChain++
						}
						if s.cov.Grew {
							st.covGrew++
						}
						if s.cov.Reused {
							st.covReused++
						}
					}
					if got != wo || n != len(want) || !sameItems(items, want) {
						bad = true
						return
					}
					for _, k := range probe {
						f, v := s.lookupKey(k)
						j := want.find(k)
						if f != (j >= 0) || (f && v != want[j].v) {
							bad = true
							return
						}
					}
					if _, msg := s.checkRefs(); msg != "" {
						bad = true
						return
					}
					if st.histories%probeEvery == 0 {
						if _, msg := s.checkAliasProbes(want); msg != "" || s.checkSubsetProbes(want) != "" {
							bad = true
						}
					}
				}()
				if bad {
					st.mismatches++
					if len(st.first) < 60 {
						// attribute to the first diverging operation
						h := History{TKind: tkind, Route: route, Hashes: hashes, Init: -1, Ops: append([]Op{}, ops...)}
						if m := runGuarded(h, 0, probe, nil, 20*time.Second); m != nil {
							m.Mode = "exh:" + hname
							m.Ops = m.Ops[:m.At+1]
							st.first = append(st.first, m)
						}
					}
				}
			}
			rec = func() {
				run()
				if len(seq) == L {
					return
				}
				for i := range alpha {
					seq = append(seq, i)
					rec()
					seq = seq[:len(seq)-1]
				}
			}
			for j := range jobs {
				seq = append(seq[:0], j.a)
				if j.b < 0 {
					run() // length-1 history
					continue
				}
				// oracle state after the first symbol
				als[1], _ = append(AL(nil), als[0]...).step(alpha[j.a](0))
				seq = append(seq, j.b)
				rec()
			}
			mu.Lock()
			tot.histories += st.histories
			tot.opExec += st.opExec
			tot.mismatches += st.mismatches
			tot.covChain += st.covChain
			tot.covGrew += st.covGrew
			tot.covReused += st.covReused
			tot.first = append(tot.first, st.first...)
			mu.Unlock()
		}()
	}
	for a := range alpha {
		jobs <- job{a, -1}
		if L >= 2 {
			for b := range alpha {
				jobs <- job{a, b}
			}
		}
	}
	close(jobs)
	wg.Wait()
	close(doneCh)
	// report distinct classes, shortest history first
	sort.SliceStable(tot.first, func(i, j int) bool { return len(tot.first[i].Ops) < len(tot.first[j].Ops) })
	seen := map[string]int{}
	for _, m := range tot.first {
		if seen[m.Class] < 1 {
			seen[m.Class]++
			hx.Emit(shrink(m, probe))
		}
	}
	hx.Emit(map[string]any{"kind": "exh", "tkind": tkind, "route": route, "hashes": hname, "len": L,
		"alphabet": len(alpha), "alphabet_kind": map[bool]string{true: "core", false: "full"}[core], "histories": tot.histories, "op_executions": tot.opExec, "mismatches": tot.mismatches,
		"coverage": map[string]any{"sampled_every": 16, "chain_gt1_bucket": tot.covChain, "grew": tot.covGrew, "reused_vacated_slot": tot.covReused}})
}

// ---------------------------------------------------------------- random long histories

var dists = []string{"allequal", "heavychain", "modtable", "sequential", "zero", "heavychain2", "pairs", "random32", "low3bits"}

func hashFor(dist string, id int, r *hx.Rand) int {
	switch dist {
	case "allequal":
		return 0x9e3779b9
	case "modtable":
		return (id << 16) | 0x1234 // equal modulo 2^16
	case "sequential":
		return id // id 0 -> hash 0
	case "zero":
		return 0
	case "pairs":
		return id / 2
	case "low3bits":
		return (id%3)<<29 | 5 // three values, equal modulo 2^29
	case "heavychain": // two thirds of the keys in ONE chain (distinct hashes equal modulo 2^12), the rest spread over the others
		if id%3 != 0 {
			return id<<12 | 5
		}
		return id
	case "heavychain2": // three heavy neighbouring chains and a sparse rest
		if id%4 != 0 {
			return id<<12 | (6 + id%3)
		}
		return id
	}
	return int(uint32(r.Uint64()))
}

func randomHistory(r *hx.Rand, tkind, route, dist string, nops int) History {
	universe := 6000
	maxLive := 3000
	if dist == "allequal" || dist == "zero" || dist == "low3bits" || dist == "heavychain" || dist == "heavychain2" {
		universe, maxLive = 1500, 700 // quadratic chains
	}
	h := History{TKind: tkind, Route: route, Init: -1}
	if r.Intn(3) == 0 {
		h.Init = []int{0, 1, 8, 9, 100, 5000}[r.Intn(6)]
	}
	for id := 0; id < universe; id++ {
		h.Hashes = append(h.Hashes, [2]int{id, hashFor(dist, id, r)})
	}
	live := map[int]bool{}
	var liveList []int
	pickLive := func() int {
		for tries := 0; tries < 8 && len(liveList) > 0; tries++ {
			k := liveList[r.Intn(len(liveList))]
			if live[k] {
				return k
			}
		}
		return r.Intn(universe)
	}
	phase := 0 // 0 fill, 1 mixed, 2 drain
	coll := func(n int) []int {
		ks := make([]int, n)
		for i := range ks {
			if r.Intn(2) == 0 {
				ks[i] = pickLive()
			} else {
				ks[i] = r.Intn(universe)
			}
			if i > 0 && r.Intn(5) == 0 {
				ks[i] = ks[r.Intn(i)] // duplicates
			}
		}
		return ks
	}
	// the generator tracks liveness approximately (only to steer); the oracle is exact
	for i := 0; i < nops; i++ {
		nl := len(live)
		switch {
		case phase == 0 && nl >= maxLive:
			phase = 1
		case phase == 1 && r.Intn(1500) == 0:
			phase = 2
		case phase == 2 && nl < 20:
			phase = 0
		}
		pIns := map[int]int{0: 85, 1: 45, 2: 8}[phase]
		x := r.Intn(100)
		var o Op
		switch {
		case x < pIns:
			k := r.Intn(universe)
			if r.Intn(6) == 0 {
				k = pickLive() // update in place
			}
			o = Op{Op: "insert", K: k, V: vv(tkind, i)}
			if r.Intn(4) == 0 {
				o.V = 0 // None is a stored value like any other
			}
			if r.Intn(8) == 0 {
				o.Op = "setdefault"
				if r.Intn(2) == 0 {
					o.K = pickLive() // setdefault on a present key (its value may be None)
					o.V = vv(tkind, i)
				}
			}
			if !live[k] {
				live[k] = true
				liveList = append(liveList, k)
			}
		case x < 93:
			k := pickLive()
			o = Op{Op: "delete", K: k, Form: r.Intn(2)}
			if tkind == "set" && r.Intn(3) == 0 {
				o.Op = "discard"
			}
			delete(live, k)
		case x < 95:
			o = Op{Op: "popfirst"}
		case x < 97:
			o = Op{Op: "lookup", K: r.Intn(universe)}
			if tkind == "set" && r.Intn(4) != 0 {
				// subset / superset queries: random collection, all live keys (+ extras), or a live subset
				var ks []int
				switch r.Intn(3) {
				case 0:
					ks = coll(1 + r.Intn(50))
				case 1:
					ks = append(append([]int{}, liveList...), coll(r.Intn(5))...)
				default:
					for _, k := range liveList {
						if live[k] && r.Intn(3) != 0 {
							ks = append(ks, k)
						}
					}
				}
				o = Op{Op: []string{"issubset", "issuperset"}[r.Intn(2)], Ks: ks, Form: r.Intn(2)}
				if o.Form == 1 {
					o.Ks = dedupInts(ks)
				}
			}
		default:
			y := r.Intn(40)
			switch {
			case y == 0:
				o = Op{Op: "clear"}
				live = map[int]bool{}
				liveList = liveList[:0]
			case tkind == "dict":
				ks := coll(1 + r.Intn(200))
				for _, k := range ks {
					o.L = append(o.L, [2]int{k, (100000 + i) * min(1, (k+i)%4)})
					if !live[k] {
						live[k] = true
						liveList = append(liveList, k)
					}
				}
				o.Op = "update"
				if r.Intn(2) == 0 {
					o.Op = "dictunion"
				}
				o.Form = r.Intn(2)
			default:
				ks := coll(1 + r.Intn(300))
				o = Op{Op: []string{"setunion", "setinter", "setdiff", "setsymdiff", "update"}[r.Intn(5)], Ks: ks, Form: r.Intn(2)}
				if o.Form == 1 {
					o.Ks = dedupInts(ks)
				}
				if o.Op == "update" {
					for _, k := range o.Ks {
						o.L = append(o.L, [2]int{k, 0})
					}
					o.Ks = nil
				}
				if o.Op == "setinter" && r.Intn(3) != 0 {
					// keep most of the set alive: intersect with (nearly) everything live
					o.Ks = append(o.Ks, liveList...)
					if o.Form == 1 {
						o.Ks = dedupInts(o.Ks)
					}
				}
			}
		}
		h.Ops = append(h.Ops, o)
		if len(liveList) > 4*universe {
			liveList = liveList[:0]
			for k := range live {
				liveList = append(liveList, k)
			}
			sort.Ints(liveList)
		}
	}
	return h
}

func dedupInts(ks []int) []int {
	seen := map[int]bool{}
	var r []int
	for _, k := range ks {
		if !seen[k] {
			seen[k] = true
			r = append(r, k)
		}
	}
	return r
}

// runLong: like runHistory but with an indexed oracle and sparse full-order comparison.
func runLong(h History, r *hx.Rand) (mm *Mismatch, cov Cov, maxLive int) {
	at := 0
	defer func() {
		if e := recover(); e != nil {
			cls, msg := "panic", fmt.Sprint(e)
			if v, ok := e.(violation); ok {
				cls, msg = v.class(), v.msg
			}
			mm = &Mismatch{Kind: "mismatch", Class: h.Ops[at].Op + ":" + cls, History: h, At: at, Msg: msg}
		}
	}()
	s := newSubject(h.TKind, h.Route, h.Hashes, h.Init)
	var l AL
	universe := len(h.Hashes)
	for i, o := range h.Ops {
		at = i
		var wo Out
		lenBefore := len(l)
		loc, had := s.before(o)
		l, wo = l.step(o)
		got := s.apply(o)
		s.after(o, loc, had, lenBefore, len(l))
		if len(l) > maxLive {
			maxLive = len(l)
		}
		derived := o.Op != "insert" && o.Op != "delete" && o.Op != "lookup" && o.Op != "setdefault" && o.Op != "discard" && o.Op != "popfirst" && o.Op != "issubset" && o.Op != "issuperset"
		full := len(l) <= 64 || i%50 == 0 || derived || i == len(h.Ops)-1
		var n int
		var items [][2]int
		if full {
			n, items = s.observe()
		} else {
			n = starlark.Len(s.x)
		}
		if got != wo || n != len(l) || (full && !sameItems(items, l)) {
			if !full {
				_, items = s.observe()
			}
			return &Mismatch{Kind: "mismatch", Class: classify(o, Obs{got, n, items}, wo, l), History: h, At: i, Got: Obs{got, n, nil}, Want: Obs{wo, len(l), nil}}, s.cov, maxLive
		}
		if full {
			if op, msg := s.checkRefs(); msg != "" {
				return &Mismatch{Kind: "mismatch", Class: op + ":aliases-operand", History: h, At: i, Got: Obs{got, n, nil}, Want: Obs{wo, len(l), nil}, Msg: msg}, s.cov, maxLive
			}
		}
		probes := []int{o.K, r.Intn(universe), r.Intn(universe)}
		if len(l) > 0 {
			probes = append(probes, l[r.Intn(len(l))].k, l[len(l)-1].k, l[0].k)
		}
		for _, k := range probes {
			f, v := s.lookupKey(k)
			j := l.find(k)
			if f != (j >= 0) || (f && v != l[j].v) {
				cls := ":lookup-finds-dead-key"
				if j >= 0 {
					cls = ":lookup-misses-live-key"
					if f {
						cls = ":lookup-value"
					}
				}
				return &Mismatch{Kind: "mismatch", Class: o.Op + cls, History: h, At: i, Got: Obs{got, n, nil}, Want: Obs{wo, len(l), nil},
					Msg: fmt.Sprintf("lookup of key %d: found=%v value=%d", k, f, v)}, s.cov, maxLive
			}
		}
	}
	return nil, s.cov, maxLive
}

// restrict a long mismatching history to the keys that matter, then shrink.
func shrinkLong(m *Mismatch) *Mismatch {
	h := m.History
	h.Ops = h.Ops[:m.At+1]
	// chunked deletion first (ddmin style), then single ops
	best := &Mismatch{Kind: "mismatch", Mode: m.Mode, Class: m.Class, History: h, At: m.At, Got: m.Got, Want: m.Want, Msg: m.Msg}
	deadline := time.Now().Add(60 * time.Second)
	for chunk := len(best.Ops) / 2; chunk >= 1; chunk /= 2 {
		for i := 0; i+chunk <= len(best.Ops) && time.Now().Before(deadline); {
			c := best.History
			c.Ops = append(append([]Op{}, best.Ops[:i]...), best.Ops[i+chunk:]...)
			if len(c.Ops) == 0 {
				i += chunk
				continue
			}
			if m2 := runGuarded(c, 0, nil, nil, 10*time.Second); m2 != nil && m2.Class == best.Class {
				m2.Mode = best.Mode
				m2.Ops = m2.Ops[:m2.At+1]
				best = m2
			} else {
				i += chunk
			}
		}
	}
	// drop unused hashes
	used := map[int]bool{}
	for _, o := range best.Ops {
		used[o.K] = true
		for _, p := range o.L {
			used[p[0]] = true
		}
		for _, k := range o.Ks {
			used[k] = true
		}
	}
	var hs [][2]int
	for _, p := range best.Hashes {
		if used[p[0]] {
			hs = append(hs, p)
		}
	}
	best.Hashes = hs
	return best
}

func random(tkind, route string, n, nops int, seed uint64, workers int) {
	type result struct {
		dist    string
		m       *Mismatch
		cov     Cov
		maxLive int
	}
	res := make([]result, n)
	var wg sync.WaitGroup
	sem := make(chan bool, workers)
	root := hx.NewRand(seed)
	for i := 0; i < n; i++ {
		r := root.Split()
		dist := dists[i%len(dists)]
		wg.Add(1)
		sem <- true
		go func(i int) {
			defer wg.Done()
			defer func() { <-sem }()
			h := randomHistory(r, tkind, route, dist, nops)
			done := make(chan result, 1)
			go func() {
				m, cov, ml := runLong(h, r.Split())
				done <- result{dist, m, cov, ml}
			}()
			select {
			case x := <-done:
				res[i] = x
			case <-time.After(120 * time.Second):
				res[i] = result{dist: dist, m: &Mismatch{Kind: "mismatch", Class: "history:hang", History: History{TKind: tkind, Route: route, Init: h.Init}, Msg: "random history did not finish in 120 s; dist=" + dist}}
			}
		}(i)
	}
	wg.Wait()
	perDist := map[string]int{}
	var chain, grew, reused, maxChain, maxLive, mism int
	seen := map[string]bool{}
	for _, x := range res {
		perDist[x.dist]++
		if x.cov.MaxChain > 1 {
			chain++
		}
		if x.cov.Grew {
			grew++
		}
		if x.cov.Reused {
			reused++
		}
		if x.cov.MaxChain > maxChain {
			maxChain = x.cov.MaxChain
		}
		if x.maxLive > maxLive {
			maxLive = x.maxLive
		}
		if x.m != nil {
			mism++
			x.m.Mode = "rand:" + x.dist
			if !seen[x.m.Class] {
				seen[x.m.Class] = true
				if len(x.m.Ops) > 0 {
					hx.Emit(shrinkLong(x.m))
				} else {
					hx.Emit(x.m)
				}
			}
		}
	}
	hx.Emit(map[string]any{"kind": "rand", "tkind": tkind, "route": route, "histories": n, "ops_each": nops, "op_executions": n * nops,
		"mismatches": mism, "distribution": perDist,
		"coverage": map[string]any{"chain_gt1_bucket": chain, "grew": grew, "reused_vacated_slot": reused, "max_chain_buckets": maxChain, "max_live_keys": maxLive}})
}

// ---------------------------------------------------------------- Coq-sized sample

var hashPool = []int{0, 1, 1, 7, 7, 7, 8, 9, 15, 16, 17, 23, 4294967295, 4294967288, 256, 1 << 31}

func sampleHistory(r *hx.Rand, id, maxops int) History {
	h := History{Init: -1}
	h.TKind = []string{"dict", "set"}[r.Intn(2)]
	h.Route = []string{"go", "star"}[r.Intn(2)]
	if r.Intn(3) == 0 {
		h.Init = []int{0, 1, 8, 9, 13, 14, 27, 100}[r.Intn(8)]
	}
	nkeys := []int{5, 12, 20, 30, 40}[r.Intn(5)]
	style := r.Intn(4) // 0 all one hash, 1 pool, 2 equal mod 8, 3 few hashes
	for k := 0; k < nkeys; k++ {
		var hv int
		switch style {
		case 0:
			hv = []int{0, 7, 4294967295}[id%3]
		case 1:
			hv = hashPool[r.Intn(len(hashPool))]
		case 2:
			hv = 5 + 8*r.Intn(6)
		default:
			hv = r.Intn(3)
		}
		h.Hashes = append(h.Hashes, [2]int{k, hv})
	}
	nops := 5 + r.Intn(maxops-4)
	live := []int{}
	coll := func() []int {
		n := 1 + r.Intn(6)
		ks := make([]int, n)
		for i := range ks {
			ks[i] = r.Intn(nkeys)
			if i > 0 && r.Intn(4) == 0 {
				ks[i] = ks[r.Intn(i)]
			}
		}
		return ks
	}
	fillUntil := 0
	if r.Intn(2) == 0 {
		fillUntil = 9 + r.Intn(20) // run of inserts first: overflow buckets and growth
		if fillUntil > nops-2 {
			fillUntil = nops - 2
		}
	}
	for i := 0; i < nops; i++ {
		x := r.Intn(100)
		if i < fillUntil {
			x = 0
		}
		var o Op
		switch {
		case x < 40:
			o = Op{Op: "insert", K: r.Intn(nkeys), V: vv(h.TKind, i) * min(1, r.Intn(4))}
			live = append(live, o.K)
		case x < 65:
			k := r.Intn(nkeys)
			if len(live) > 0 && r.Intn(4) != 0 {
				k = live[r.Intn(len(live))]
			}
			o = Op{Op: "delete", K: k, Form: r.Intn(2)}
			if h.TKind == "set" && r.Intn(3) == 0 {
				o.Op = "discard"
			}
		case x < 72:
			o = Op{Op: "lookup", K: r.Intn(nkeys)}
			if h.TKind == "set" && r.Intn(2) == 0 {
				ks := coll()
				if r.Intn(2) == 0 {
					ks = append(ks, live...) // likely a superset of the live elements
				}
				o = Op{Op: []string{"issubset", "issuperset"}[r.Intn(2)], Ks: ks, Form: r.Intn(2)}
				if o.Form == 1 {
					o.Ks = dedupInts(ks)
				}
			}
		case x < 78:
			o = Op{Op: "popfirst"}
		case x < 84:
			o = Op{Op: "setdefault", K: r.Intn(nkeys), V: vv(h.TKind, i) * min(1, r.Intn(5))}
			if len(live) > 0 && r.Intn(2) == 0 {
				o.K = live[r.Intn(len(live))]
			}
			live = append(live, o.K)
		case x < 86:
			o = Op{Op: "clear"}
		default:
			ks := coll()
			if h.TKind == "dict" {
				o = Op{Op: []string{"update", "dictunion"}[r.Intn(2)], Form: r.Intn(2)}
				for _, k := range ks {
					o.L = append(o.L, [2]int{k, (50 + i) * min(1, r.Intn(4))})
				}
			} else {
				o = Op{Op: []string{"update", "setunion", "setinter", "setdiff", "setsymdiff"}[r.Intn(5)], Ks: ks, Form: r.Intn(2)}
				if o.Form == 1 {
					o.Ks = dedupInts(ks)
				}
				if o.Op == "update" {
					for _, k := range o.Ks {
						o.L = append(o.L, [2]int{k, 0})
					}
					o.Ks = nil
				}
			}
		}
		h.Ops = append(h.Ops, o)
	}
	return h
}

func sample(n, maxops int, seed uint64) {
	r := hx.NewRand(seed)
	for i := 0; i < n; i++ {
		h := sampleHistory(r.Split(), i, maxops)
		done := make(chan bool, 1)
		go func() { emitObserved(h, i); done <- true }()
		select {
		case <-done:
		case <-time.After(30 * time.Second):
			hx.Emit(map[string]any{"kind": "hist", "id": i, "tkind": h.TKind, "route": h.Route, "hashes": h.Hashes, "init": h.Init, "ops": h.Ops,
				"err": "no answer within 30 s (loop in the table?)"})
			hx.Flush()
			os.Exit(0)
		}
	}
}

// emitObserved runs h on the real table and prints every observation (no oracle here:
// the comparison is made inside Coq, against Concrete.v and Spec.v).
func emitObserved(h History, id int) {
	type rec struct {
		Kind string `json:"kind"`
		ID   int    `json:"id"`
		History
		Obs    []Obs  `json:"obs"`
		Cov    Cov    `json:"cov"`
		GoSpec bool   `json:"go_oracle_ok"`
		Class  string `json:"class,omitempty"` // first operation that differs from the Go oracle
		At     int    `json:"at"`
		Err    string `json:"err,omitempty"`
	}
	out := rec{Kind: "hist", ID: id, History: h, GoSpec: true}
	func() {
		defer func() {
			if e := recover(); e != nil {
				out.Err = fmt.Sprint(e)
			}
		}()
		s := newSubject(h.TKind, h.Route, h.Hashes, h.Init)
		var l AL
		for i, o := range h.Ops {
			lenBefore := len(l)
			loc, had := s.before(o)
			var wo Out
			l, wo = l.step(o)
			got := s.apply(o)
			s.after(o, loc, had, lenBefore, len(l))
			n, items := s.observe()
			out.Obs = append(out.Obs, Obs{got, n, items})
			if out.GoSpec && (got != wo || n != len(l) || !sameItems(items, l)) {
				out.GoSpec = false
				out.Class = classify(o, Obs{got, n, items}, wo, l)
				out.At = i
			}
		}
		out.Cov = s.cov
	}()
	hx.Emit(out)
}

// ---------------------------------------------------------------- big collections with one overlong chain
//
// A handful of cases per run: a table of 8..64 chains in which ONE chain holds 65..200
// entries (hashes equal modulo 2^12 but distinct, some fully equal) and its neighbours and
// a few other chains are populated too, filled in shuffled order with some deletions; then
// every query (issubset / issuperset by method and the six comparison operators) and every
// derived operation is run against second BIG collections (the same elements reversed, a
// superset, a subset missing one element of the long chain / of a neighbour, a shuffle with
// duplicates, a disjoint one) and compared with the association list.
func bigCase(r *hx.Rand, tkind, route string) History {
	h := History{TKind: tkind, Route: route, Init: -1}
	nbT := []int{8, 16, 32, 64}[r.Intn(4)]
	heavy := 65 + r.Intn(136)
	if r.Intn(3) == 0 {
		heavy = 65 + r.Intn(8) // just past one 64-bit word
	}
	maxTotal := int(6.4 * float64(nbT))
	if heavy > maxTotal-nbT {
		heavy = maxTotal - nbT
	}
	if heavy < 65 {
		// a small table cannot stay small with 65 entries: let it be what it grows to
		heavy = 65 + r.Intn(10)
	}
	c := r.Intn(nbT)
	id := 0
	var ids []int
	add := func(hash int) {
		h.Hashes = append(h.Hashes, [2]int{id, hash})
		ids = append(ids, id)
		id++
	}
	for j := 0; j < heavy; j++ {
		hv := c + 4096*(j+1)
		if j%9 == 8 {
			hv = c + 4096 // fully equal 32-bit hashes too
		}
		add(hv)
	}
	nheavy := id
	// neighbours and a few others
	for _, d := range []int{1, 1, 1, -1, -1, 2, 5} {
		add(((c+d+64)%64 + 4096*(1+r.Intn(50))))
	}
	for j := 0; j < nbT/2+r.Intn(nbT); j++ {
		add(r.Intn(64) + 4096*r.Intn(50))
	}
	if c == 0 || r.Intn(4) == 0 {
		add(0) // hash 0 -> 1
	}
	total := id
	// spare keys never inserted into x (for supersets / disjoint operands)
	for j := 0; j < 40; j++ {
		add(r.Intn(64) + 4096*r.Intn(50))
	}
	if r.Intn(2) == 0 {
		h.Init = []int{0, 30, 60, 120, 250, total}[r.Intn(6)]
	}
	order := append([]int{}, ids[:total]...)
	for i := len(order) - 1; i > 0; i-- {
		j := r.Intn(i + 1)
		order[i], order[j] = order[j], order[i]
	}
	v := func(i int) int {
		if tkind == "set" || i%5 == 2 {
			return 0 // None among the stored values
		}
		return i + 1
	}
	for i, k := range order {
		h.Ops = append(h.Ops, Op{Op: "insert", K: k, V: v(i)})
		if i%17 == 16 { // holes, refilled later in other slots
			h.Ops = append(h.Ops, Op{Op: "delete", K: order[r.Intn(i)]})
		}
	}
	for _, k := range order[:len(order)/8] {
		h.Ops = append(h.Ops, Op{Op: "insert", K: k, V: v(k)})
	}
	rev := func(a []int) []int {
		b := make([]int, len(a))
		for i := range a {
			b[len(a)-1-i] = a[i]
		}
		return b
	}
	shuf := func(a []int) []int {
		b := append([]int{}, a...)
		for i := len(b) - 1; i > 0; i-- {
			j := r.Intn(i + 1)
			b[i], b[j] = b[j], b[i]
		}
		return b
	}
	all := ids[:total]
	spare := ids[total:]
	without := func(a []int, x int) []int {
		var b []int
		for _, k := range a {
			if k != x {
				b = append(b, k)
			}
		}
		return b
	}
	dup := shuf(append(append([]int{}, all...), all[:len(all)/3]...))
	operands := [][]int{
		rev(all), shuf(all), dup,
		append(shuf(all), spare[:5]...),
		without(shuf(all), r.Intn(nheavy)),  // misses one of the long chain
		without(rev(all), nheavy+r.Intn(3)), // misses one of the neighbour chain
		shuf(all[:nheavy]),                  // only the long chain
		shuf(all[nheavy:]),                  // everything but the long chain
		append(shuf(spare), all[nheavy]),    // nearly disjoint
	}
	if tkind == "set" {
		for _, ks := range operands {
			for _, name := range []string{"issubset", "issuperset"} {
				h.Ops = append(h.Ops, Op{Op: name, Ks: ks}, Op{Op: name, Ks: dedupInts(ks), Form: 1})
			}
		}
		// derived operations, each followed by queries on the derived set
		derived := []string{"setunion", "setdiff", "setinter", "setsymdiff", "setunion", "setinter"}
		for i, name := range derived {
			ks := operands[(i*2+3)%len(operands)]
			form := i % 2
			if form == 1 {
				ks = dedupInts(ks)
			}
			h.Ops = append(h.Ops, Op{Op: name, Ks: ks, Form: form})
			if name != "setunion" {
				// refill so that the long chain stays long
				var l [][2]int
				for _, k := range shuf(all) {
					l = append(l, [2]int{k, 0})
				}
				h.Ops = append(h.Ops, Op{Op: "issubset", Ks: rev(all), Form: 1}, Op{Op: "update", L: l, Form: i % 2})
			}
			h.Ops = append(h.Ops, Op{Op: "issubset", Ks: shuf(all), Form: 1 - form}, Op{Op: "issuperset", Ks: dup, Form: 0},
				Op{Op: "issubset", Ks: operands[4], Form: form}, Op{Op: "popfirst"}, Op{Op: "issubset", Ks: rev(all), Form: form})
		}
	} else {
		for i, ks := range operands {
			var l [][2]int
			for _, k := range ks {
				l = append(l, [2]int{k, (1000 + i) * min(1, (k+i)%3)})
			}
			name := []string{"update", "dictunion"}[i%2]
			form := (i / 2) % 2
			if form == 1 {
				var l2 [][2]int
				seen := map[int]bool{}
				for _, p := range l {
					if !seen[p[0]] {
						seen[p[0]] = true
						l2 = append(l2, p)
					}
				}
				l = l2
			}
			h.Ops = append(h.Ops, Op{Op: name, L: l, Form: form}, Op{Op: "popfirst"}, Op{Op: "delete", K: all[r.Intn(len(all))], Form: i % 2},
				Op{Op: "setdefault", K: all[r.Intn(len(all))], V: 7000 + i})
		}
	}
	return h
}

func bigsets(n int, seed uint64) {
	root := hx.NewRand(seed)
	mism := 0
	seen := map[string]bool{}
	var chain, grew, reused, maxChain, opsN int
	perKind := map[string]int{}
	for i := 0; i < n; i++ {
		tkind := []string{"set", "set", "dict"}[i%3]
		route := []string{"go", "star"}[(i/3)%2]
		h := bigCase(root.Split(), tkind, route)
		perKind[tkind+"/"+route]++
		opsN += len(h.Ops)
		var cov Cov
		m := runGuarded(h, 0, nil, &cov, 60*time.Second)
		if cov.MaxChain > 1 {
			chain++
		}
		if cov.Grew {
			grew++
		}
		if cov.Reused {
			reused++
		}
		if cov.MaxChain > maxChain {
			maxChain = cov.MaxChain
		}
		if m != nil {
			mism++
			m.Mode = "big"
			if !seen[m.Class] {
				seen[m.Class] = true
				m.Ops = m.Ops[:m.At+1]
				hx.Emit(m)
			}
		}
	}
	hx.Emit(map[string]any{"kind": "big", "histories": n, "op_executions": opsN, "mismatches": mism, "distribution": perKind,
		"coverage": map[string]any{"chain_gt1_bucket": chain, "grew": grew, "reused_vacated_slot": reused, "max_chain_buckets": maxChain}})
}

// ---------------------------------------------------------------- whole programs with built-in key types
//
// Histories written as Starlark SOURCE over keys of the built-in types (short and long
// strings, small and big ints, tuples), executed by the interpreter end to end; the
// items are recorded after every statement and compared with the association list.
// This is where keyword arguments (d.update(**kw), dict(pairs, **kw)) are exercised.

var progKeys = []string{`"a"`, `"b"`, `"c"`, `"key_number_four_is_long"`, `"another_rather_long_key"`, `"e"`,
	`0`, `1`, `-1`, `1 << 70`, `(1, "x")`, `(1, 2, 3)`, `()`, `""`, `True`, `None`}

// kwargs need identifier-like string keys
var progKwKeys = []int{0, 1, 2, 5}
var progKwNames = map[int]string{0: "a", 1: "b", 2: "c", 5: "e"}

func lit(v int) string {
	if v == 0 {
		return "None"
	}
	return fmt.Sprint(v)
}

func programs(n, nops int, seed uint64) {
	root := hx.NewRand(seed)
	mism := 0
	seen := map[string]bool{}
	stmts := 0
	for pi := 0; pi < n; pi++ {
		r := root.Split()
		tkind := []string{"dict", "set"}[pi%2]
		var src []string
		var ops []Op
		var l AL
		var wants []AL
		if tkind == "dict" {
			src = append(src, "x = {}")
		} else {
			src = append(src, "x = set()")
		}
		pairsSrc := func(ps [][2]int) string {
			t := "["
			for i, p := range ps {
				if i > 0 {
					t += ", "
				}
				t += fmt.Sprintf("(%s, %s)", progKeys[p[0]], lit(p[1]))
			}
			return t + "]"
		}
		keysSrc := func(ks []int) string {
			t := "["
			for i, k := range ks {
				if i > 0 {
					t += ", "
				}
				t += progKeys[k]
			}
			return t + "]"
		}
		for i := 0; i < nops; i++ {
			k := r.Intn(len(progKeys))
			v := i + 1
			var o Op
			var line string
			rc := func() []int {
				ks := make([]int, 1+r.Intn(4))
				for j := range ks {
					ks[j] = r.Intn(len(progKeys))
				}
				return ks
			}
			if tkind == "dict" {
				switch r.Intn(10) {
				case 0, 1, 2:
					if r.Intn(4) == 0 {
						v = 0
					}
					o, line = Op{Op: "insert", K: k, V: v}, fmt.Sprintf("x[%s] = %s", progKeys[k], lit(v))
				case 3:
					o, line = Op{Op: "delete", K: k}, fmt.Sprintf("x.pop(%s, None)", progKeys[k])
				case 4:
					if r.Intn(4) == 0 {
						// no default: stores None when the key is absent
						o, line = Op{Op: "setdefault", K: k, V: 0}, fmt.Sprintf("x.setdefault(%s)", progKeys[k])
					} else {
						o, line = Op{Op: "setdefault", K: k, V: v}, fmt.Sprintf("x.setdefault(%s, %d)", progKeys[k], v)
					}
				case 5:
					o, line = Op{Op: "popfirst"}, "x.popitem() if x else None"
				case 6: // update with pairs and keyword arguments: pairs first, then kwargs in the order written
					var ps [][2]int
					for _, kk := range rc() {
						ps = append(ps, [2]int{kk, v})
					}
					kw := ""
					all := append([][2]int{}, ps...)
					used := map[int]bool{}
					for j := 0; j < r.Intn(4); j++ {
						kk := progKwKeys[r.Intn(len(progKwKeys))]
						if used[kk] {
							continue
						}
						used[kk] = true
						kw += fmt.Sprintf(", %s = %d", progKwNames[kk], 1000+v+j)
						all = append(all, [2]int{kk, 1000 + v + j})
					}
					o, line = Op{Op: "update", L: all}, fmt.Sprintf("x.update(%s%s)", pairsSrc(ps), kw)
				case 7: // x = dict(x, **kw) / dict(pairs) | x
					var ps [][2]int
					for _, kk := range rc() {
						ps = append(ps, [2]int{kk, v})
					}
					o, line = Op{Op: "dictunion", L: ps}, fmt.Sprintf("x = x | dict(%s)", pairsSrc(ps))
				case 8:
					var ps [][2]int
					for _, kk := range dedupInts(rc()) {
						ps = append(ps, [2]int{kk, v})
					}
					o, line = Op{Op: "update", L: ps}, fmt.Sprintf("x |= dict(%s)", pairsSrc(ps))
				default:
					if r.Intn(4) == 0 {
						o, line = Op{Op: "clear"}, "x.clear()"
					} else {
						o, line = Op{Op: "insert", K: k, V: v}, fmt.Sprintf("x[%s] = %d", progKeys[k], v)
					}
				}
			} else {
				ks := rc()
				switch r.Intn(11) {
				case 0, 1, 2:
					o, line = Op{Op: "insert", K: k}, fmt.Sprintf("x.add(%s)", progKeys[k])
				case 3:
					o, line = Op{Op: "discard", K: k}, fmt.Sprintf("x.discard(%s)", progKeys[k])
				case 4:
					o, line = Op{Op: "popfirst"}, "x.pop() if x else None"
				case 5:
					o, line = Op{Op: "setunion", Ks: ks}, fmt.Sprintf("x = x.union(%s)", keysSrc(ks))
				case 6:
					o, line = Op{Op: "setinter", Ks: ks}, fmt.Sprintf("x = x & set(%s)", keysSrc(ks))
				case 7:
					o, line = Op{Op: "setdiff", Ks: ks}, fmt.Sprintf("x = x - set(%s)", keysSrc(ks))
				case 8:
					o, line = Op{Op: "setsymdiff", Ks: ks}, fmt.Sprintf("x = x.symmetric_difference(%s)", keysSrc(ks))
				case 9:
					var ps [][2]int
					for _, kk := range ks {
						ps = append(ps, [2]int{kk, 0})
					}
					o, line = Op{Op: "update", L: ps}, fmt.Sprintf("x |= set(%s)", keysSrc(ks))
				default:
					o, line = Op{Op: "setsymdiff", Ks: dedupInts(ks)}, fmt.Sprintf("x = x ^ set(%s)", keysSrc(ks))
				}
			}
			if tkind == "set" {
				o.V = 0
				for j := range o.L {
					o.L[j][1] = 0
				}
			}
			l, _ = l.step(o)
			wants = append(wants, append(AL(nil), l...))
			ops = append(ops, o)
			if tkind == "dict" {
				src = append(src, line, "out.append((len(x), x.items()))")
			} else {
				src = append(src, line, "out.append((len(x), [(k, 0) for k in x]))")
			}
		}
		stmts += nops
		// bool True == 1 and hash equal: keep both out of one program would hide nothing; the oracle
		// treats them as distinct ids, so drop programs that use both True and 1.
		usesTrue, usesOne := false, false
		for _, o := range ops {
			for _, kk := range append(append([]int{o.K}, o.Ks...), func() []int {
				var t []int
				for _, p := range o.L {
					t = append(t, p[0])
				}
				return t
			}()...) {
				if progKeys[kk] == "True" {
					usesTrue = true
				}
				if progKeys[kk] == "1" {
					usesOne = true
				}
			}
		}
		if usesTrue && usesOne {
			continue
		}
		program := ""
		for _, ln := range src {
			program += ln + "\n"
		}
		out := starlark.NewList(nil)
		th := &starlark.Thread{Name: "c12prog"}
		_, err := starlark.ExecFileOptions(&syntax.FileOptions{Set: true, GlobalReassign: true, TopLevelControl: true}, th, "prog.star", program,
			starlark.StringDict{"out": out})
		class, msg, at := "", "", -1
		if err != nil {
			class, msg = "prog:error", err.Error()
		} else {
			// evaluate the key expressions once to identify keys in the output
			keyVals := make([]starlark.Value, len(progKeys))
			for i, ks := range progKeys {
				kv, err := starlark.EvalOptions(&syntax.FileOptions{}, th, "k", ks, nil)
				if err != nil {
					panic(err)
				}
				keyVals[i] = kv
			}
			idOf := func(v starlark.Value) int {
				for i, kv := range keyVals {
					if eq, _ := starlark.Equal(v, kv); eq && v.Type() == kv.Type() {
						return i
					}
				}
				return -1
			}
			for i := 0; i < out.Len() && class == ""; i++ {
				t := out.Index(i).(starlark.Tuple)
				n, _ := starlark.AsInt32(t[0])
				items := t[1].(*starlark.List)
				got := make([][2]int, items.Len())
				for j := range got {
					p := items.Index(j).(starlark.Tuple)
					got[j] = [2]int{idOf(p[0]), val(p[1])}
				}
				if n != len(wants[i]) || !sameItems(got, wants[i]) {
					class = "prog:" + classify(ops[i], Obs{Out{}, n, got}, Out{}, wants[i])
					msg = fmt.Sprintf("statement %d: got %v want %v", i, got, alItems(wants[i]))
					at = i
				}
			}
		}
		if class != "" {
			mism++
			if !seen[class] {
				seen[class] = true
				cut := len(src)
				if at >= 0 {
					cut = 1 + 2*(at+1)
				}
				hx.Emit(map[string]any{"kind": "mismatch", "mode": "prog", "class": class, "tkind": tkind, "route": "program", "hashes": [][2]int{}, "init": -1,
					"ops": ops[:max(at+1, 0)], "at": at, "msg": msg, "program": src[:cut], "keys": progKeys})
			}
		}
	}
	hx.Emit(map[string]any{"kind": "prog", "histories": n, "op_executions": stmts, "mismatches": mism})
}

// ---------------------------------------------------------------- main

func main() {
	defer hx.Flush()
	if len(os.Args) < 2 {
		fmt.Fprintln(os.Stderr, "usage: c12 exhaustive|random|sample|replay ...")
		os.Exit(2)
	}
	if os.Getenv("GOGC") == "" {
		debug.SetGCPercent(200) // measured: larger heaps only add page faults here
	}
	if pf := os.Getenv("C12_CPUPROFILE"); pf != "" {
		f, _ := os.Create(pf)
		pprof.StartCPUProfile(f)
		defer pprof.StopCPUProfile()
	}
	loadStar()
	fs := flag.NewFlagSet(os.Args[1], flag.ExitOnError)
	L := fs.Int("len", 4, "history length (exhaustive)")
	kind := fs.String("kind", "dict", "dict|set")
	route := fs.String("route", "go", "go|star")
	hashes := fs.String("hashes", "zero3", "zero3|same5|prefill")
	workers := fs.Int("workers", 16, "parallel workers")
	n := fs.Int("n", 10, "number of histories")
	nops := fs.Int("ops", 10000, "ops per random history")
	maxops := fs.Int("maxops", 40, "max ops per sample history")
	seed := fs.Uint64("seed", 1, "seed")
	alpha := fs.String("alpha", "full", "full|core (insert/delete x 5 keys, popfirst, clear)")
	fs.Parse(os.Args[2:])
	switch os.Args[1] {
	case "exhaustive":
		exhaustive(*kind, *route, *hashes, *L, *workers, *alpha == "core")
	case "random":
		random(*kind, *route, *n, *nops, *seed, *workers)
	case "sample":
		sample(*n, *maxops, *seed)
	case "programs":
		programs(*n, *maxops, *seed)
	case "bigsets":
		bigsets(*n, *seed)
	case "guard":
		guardMode(*n, *maxops, *seed)
	case "replay":
		var h History
		if err := json.NewDecoder(os.Stdin).Decode(&h); err != nil {
			fmt.Fprintln(os.Stderr, err)
			os.Exit(2)
		}
		if m := runGuarded(h, 0, nil, nil, 60*time.Second); m != nil {
			m.Mode = "replay"
			hx.Emit(m)
		} else {
			hx.Emit(map[string]any{"kind": "replay", "ok": true})
		}
	default:
		fmt.Fprintln(os.Stderr, "unknown mode")
		os.Exit(2)
	}
}
