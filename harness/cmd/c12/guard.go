// c12 guard: histories WITH freeze / iterate / Done events on the real Dict / Set
// through the public Go API (SetKey / Insert, Delete, Clear, Get / Has, Items, Len,
// IsSubset, Iterate / Next / Done, Freeze) and the builtins that look before they call
// (d.popitem(), s.pop(), s.clear()).  Prints what was observed after every event:
// the output or the CLASS of the refusal (frozen | iterating -- the only use made of
// the error text), Len() and the items in order.  No oracle here: every observation
// is evaluated inside Coq against Guarded.v (the pointer-level model with the frozen /
// itercount guards) and GuardedSpec.v (association list + the two flags).  Each event is
// also bracketed by two copies of the table's bytes (VerifHeader): "w" says whether any
// byte changed -- checks/c12.py requires w = false wherever the theorems of the guarded
// layer say the state returned is the state given (refusals, readers, anything on a
// frozen table, a whole balanced iteration).
//
//	c12 guard -n H -maxops M -seed S
package main

import (
	"bytes"
	"fmt"
	"os"
	"strings"
	"time"

	"go.starlark.net/starlark"

	"verifharness/internal/hx"
)

type GOp struct {
	Op string `json:"op"`
	K  int    `json:"k"`
	V  int    `json:"v"`
	Ks []int  `json:"ks,omitempty"`
}

type GOut struct {
	T     string   `json:"t"` // none val kv bool items len keys err
	Found bool     `json:"found,omitempty"`
	K     int      `json:"k,omitempty"`
	V     int      `json:"v,omitempty"`
	E     string   `json:"e,omitempty"` // frozen | iterating
	N     int      `json:"n,omitempty"`
	L     [][2]int `json:"l,omitempty"`
	Ks    []int    `json:"ks,omitempty"`
}

type GObs struct {
	Out   GOut     `json:"out"`
	Len   int      `json:"len"`
	Items [][2]int `json:"items"`
	// Wrote: some byte of the hashtable struct or of its buckets (bucket array and overflow
	// buckets, read through the verif hook VerifHeader of C05) differs after the event.
	Wrote bool `json:"w,omitempty"`
}

type GHistory struct {
	TKind  string   `json:"tkind"`
	Hashes [][2]int `json:"hashes"`
	Init   int      `json:"init"`
	Ops    []GOp    `json:"ops"`
}

// errClass maps an error of the table to its class; "" when it is none of the three.
func errClass(err error) string {
	m := err.Error()
	switch {
	case strings.Contains(m, "frozen"):
		return "frozen"
	case strings.Contains(m, "during iteration"):
		return "iterating"
	case strings.Contains(m, "empty"):
		return "empty"
	}
	return ""
}

func refusal(err error) GOut {
	c := errClass(err)
	if c != "frozen" && c != "iterating" {
		panic(fmt.Sprintf("unexpected error %q", err.Error()))
	}
	return GOut{T: "err", E: c}
}

type gsubject struct {
	tkind string
	x     starlark.Value
	keys  map[int]*HK
	th    *starlark.Thread
	open  []starlark.Iterator
}

func (s *gsubject) builtin(name string) (starlark.Value, error) {
	fn, err := s.x.(starlark.HasAttrs).Attr(name)
	if err != nil || fn == nil {
		panic(fmt.Sprintf("no method %s", name))
	}
	return starlark.Call(s.th, fn, nil, nil)
}

func (s *gsubject) apply(o GOp) GOut {
	d, _ := s.x.(*starlark.Dict)
	x, _ := s.x.(*starlark.Set)
	isDict := s.tkind == "dict"
	switch o.Op {
	case "insert":
		var err error
		if isDict {
			err = d.SetKey(s.keys[o.K], mkVal(o.V))
		} else {
			err = x.Insert(s.keys[o.K])
		}
		if err != nil {
			return refusal(err)
		}
		return GOut{T: "none"}
	case "delete":
		if isDict {
			v, found, err := d.Delete(s.keys[o.K])
			if err != nil {
				return refusal(err)
			}
			return GOut{T: "val", Found: found, V: val(v)}
		}
		found, err := x.Delete(s.keys[o.K])
		if err != nil {
			return refusal(err)
		}
		return GOut{T: "val", Found: found}
	case "clear": // hashtable.clear: the Go method, or d.clear() which is the same call
		var err error
		if isDict {
			if o.V == 1 {
				_, err = s.builtin("clear")
			} else {
				err = d.Clear()
			}
		} else {
			err = x.Clear()
		}
		if err != nil {
			return refusal(err)
		}
		return GOut{T: "none"}
	case "setclear": // the builtin s.clear(): if Len() > 0 { Clear() }
		if _, err := s.builtin("clear"); err != nil {
			return refusal(err)
		}
		return GOut{T: "none"}
	case "popfirst":
		name := "popitem"
		if !isDict {
			name = "pop"
		}
		r, err := s.builtin(name)
		if err != nil {
			if errClass(err) == "empty" {
				return GOut{T: "kv"}
			}
			return refusal(err)
		}
		if isDict {
			t := r.(starlark.Tuple)
			return GOut{T: "kv", Found: true, K: t[0].(*HK).id, V: val(t[1])}
		}
		return GOut{T: "kv", Found: true, K: r.(*HK).id}
	case "lookup":
		if isDict {
			v, found, err := d.Get(s.keys[o.K])
			must(err)
			return GOut{T: "val", Found: found, V: val(v)}
		}
		found, err := x.Has(s.keys[o.K])
		must(err)
		return GOut{T: "val", Found: found}
	case "items":
		return GOut{T: "items", L: s.items()}
	case "len":
		return GOut{T: "len", N: starlark.Len(s.x)}
	case "issubset":
		vals := make([]starlark.Value, len(o.Ks))
		for i, k := range o.Ks {
			vals[i] = s.keys[k]
		}
		it := starlark.NewList(vals).Iterate()
		defer it.Done()
		b, err := x.IsSubset(it)
		must(err)
		return GOut{T: "bool", Found: b}
	case "iterbegin":
		s.open = append(s.open, starlark.Iterate(s.x))
		return GOut{T: "none"}
	case "iterdone":
		i := o.V % len(s.open)
		s.open[i].Done()
		s.open = append(s.open[:i], s.open[i+1:]...)
		return GOut{T: "none"}
	case "iterate":
		ks := []int{}
		it := starlark.Iterate(s.x)
		var k starlark.Value
		for it.Next(&k) {
			ks = append(ks, k.(*HK).id)
			if len(ks) > 1000 {
				panic("iteration does not end")
			}
		}
		it.Done()
		return GOut{T: "keys", Ks: ks}
	case "freeze":
		s.x.Freeze()
		return GOut{T: "none"}
	}
	panic("unknown event " + o.Op)
}

// items in order.  A Dict has Items(); a Set is read through a balanced Iterate / Done
// (the only public way), which leaves itercount where it was.
func (s *gsubject) items() [][2]int {
	out := [][2]int{}
	if d, ok := s.x.(*starlark.Dict); ok {
		for _, p := range d.Items() {
			out = append(out, [2]int{p[0].(*HK).id, val(p[1])})
		}
		return out
	}
	it := starlark.Iterate(s.x)
	defer it.Done()
	var k starlark.Value
	for it.Next(&k) {
		out = append(out, [2]int{k.(*HK).id, 0})
		if len(out) > 1000 {
			panic("iteration does not end")
		}
	}
	return out
}

var guardHashStyles = []string{"allzero", "pool", "mod8", "few", "distinct"}

func guardHistory(r *hx.Rand, id, maxops int) (GHistory, string) {
	h := GHistory{Init: -1}
	h.TKind = []string{"dict", "set"}[r.Intn(2)]
	if r.Intn(4) == 0 {
		h.Init = []int{0, 1, 8, 9, 14}[r.Intn(5)]
	}
	nkeys := 3 + r.Intn(6)
	if r.Intn(8) == 0 {
		nkeys = 12 // more than one bucket when they collide
	}
	style := guardHashStyles[r.Intn(len(guardHashStyles))]
	for k := 1; k <= nkeys; k++ {
		var hv int
		switch style {
		case "allzero":
			hv = 0
		case "pool":
			hv = hashPool[r.Intn(len(hashPool))]
		case "mod8":
			hv = 5 + 8*r.Intn(6)
		case "few":
			hv = r.Intn(3)
		default:
			hv = k * 2654435761 % (1 << 32)
		}
		h.Hashes = append(h.Hashes, [2]int{k, hv})
	}
	n := 6 + r.Intn(maxops-5)
	freezeAt := -1
	switch r.Intn(8) {
	case 0:
		freezeAt = 0 // frozen while the table may still be nil
	case 1, 2, 3:
		freezeAt = n/3 + r.Intn(n-n/3)
	}
	isDict := h.TKind == "dict"
	open := 0
	v := 0
	if freezeAt != 0 { // most histories start with a few entries in the table
		for j := r.Intn(6); j > 0; j-- {
			v++
			o := GOp{Op: "insert", K: 1 + r.Intn(nkeys)}
			if isDict {
				o.V = v % 50
			}
			h.Ops = append(h.Ops, o)
		}
		if freezeAt > 0 {
			freezeAt += len(h.Ops)
		}
	}
	n += len(h.Ops)
	for i := len(h.Ops); i < n; i++ {
		if i == freezeAt {
			h.Ops = append(h.Ops, GOp{Op: "freeze"})
			continue
		}
		k := 1 + r.Intn(nkeys)
		c := r.Intn(100)
		switch {
		case c < 30:
			v++
			o := GOp{Op: "insert", K: k}
			if isDict {
				o.V = v % 50 // 0 stands for None
			}
			h.Ops = append(h.Ops, o)
		case c < 42:
			h.Ops = append(h.Ops, GOp{Op: "delete", K: k})
		case c < 50:
			h.Ops = append(h.Ops, GOp{Op: "lookup", K: k})
		case c < 55:
			h.Ops = append(h.Ops, GOp{Op: "clear", V: r.Intn(2)})
		case c < 59:
			if isDict {
				h.Ops = append(h.Ops, GOp{Op: "items"})
			} else {
				h.Ops = append(h.Ops, GOp{Op: "setclear"})
			}
		case c < 67:
			h.Ops = append(h.Ops, GOp{Op: "popfirst"})
		case c < 70:
			h.Ops = append(h.Ops, GOp{Op: "len"})
		case c < 74:
			if isDict {
				h.Ops = append(h.Ops, GOp{Op: "lookup", K: k})
			} else {
				var ks []int
				for j := r.Intn(nkeys + 2); j > 0; j-- {
					ks = append(ks, 1+r.Intn(nkeys))
				}
				h.Ops = append(h.Ops, GOp{Op: "issubset", Ks: ks})
			}
		case c < 82:
			open++
			h.Ops = append(h.Ops, GOp{Op: "iterbegin"})
		case c < 93:
			if open > 0 {
				open--
				h.Ops = append(h.Ops, GOp{Op: "iterdone", V: r.Intn(8)})
			} else {
				h.Ops = append(h.Ops, GOp{Op: "insert", K: k, V: map[bool]int{true: 7, false: 0}[isDict]})
			}
		case c < 98:
			h.Ops = append(h.Ops, GOp{Op: "iterate"})
		default:
			h.Ops = append(h.Ops, GOp{Op: "freeze"})
		}
	}
	return h, style
}

func emitGuard(h GHistory, id int, style string) {
	type rec struct {
		Kind  string `json:"kind"`
		ID    int    `json:"id"`
		Style string `json:"style"`
		GHistory
		Obs []GObs `json:"obs"`
		Err string `json:"err,omitempty"`
	}
	out := rec{Kind: "ghist", ID: id, Style: style, GHistory: h}
	func() {
		defer func() {
			if e := recover(); e != nil {
				out.Err = fmt.Sprint(e)
			}
		}()
		s := &gsubject{tkind: h.TKind, keys: mkKeys(h.Hashes), th: &starlark.Thread{Name: "c12guard"}}
		switch {
		case h.TKind == "dict" && h.Init < 0:
			s.x = new(starlark.Dict)
		case h.TKind == "dict":
			s.x = starlark.NewDict(h.Init)
		case h.Init < 0:
			s.x = new(starlark.Set)
		default:
			s.x = starlark.NewSet(h.Init)
		}
		for _, o := range h.Ops {
			before, _, _, _ := starlark.VerifHeader(s.x)
			got := s.apply(o)
			after, _, _, _ := starlark.VerifHeader(s.x)
			out.Obs = append(out.Obs, GObs{got, starlark.Len(s.x), s.items(), !bytes.Equal(before, after)})
		}
	}()
	hx.Emit(out)
}

func guardMode(n, maxops int, seed uint64) {
	r := hx.NewRand(seed ^ 0x6a09e667f3bcc908)
	if maxops < 8 {
		maxops = 8
	}
	for i := 0; i < n; i++ {
		h, style := guardHistory(r.Split(), i, maxops)
		done := make(chan bool, 1)
		go func() { emitGuard(h, i, style); done <- true }()
		select {
		case <-done:
		case <-time.After(30 * time.Second):
			hx.Emit(map[string]any{"kind": "ghist", "id": i, "tkind": h.TKind, "hashes": h.Hashes, "init": h.Init, "ops": h.Ops,
				"err": "no answer within 30 s (loop in the table?)"})
			hx.Flush()
			os.Exit(0)
		}
	}
}
