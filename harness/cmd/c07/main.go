// c07: step limits and cancellation against the real interpreter.
//
// For each program the unlimited run is measured first (full step count T, the
// step index of every call of the host built-in b(), how it ends).  Then
//   sweep : every limit N from 1 to T+2 (or to a cap for non-terminating
//           programs) on a fresh thread;
//   inj   : a Cancel / Uncancel script performed from inside the k-th built-in
//           call, for every k, with and without a limit, either on the
//           interpreter's goroutine or on another goroutine while the built-in waits;
//   life  : scripted Cancel / Uncancel / re-execute sequences on one thread;
//   async : Cancel from another goroutine at a random moment;
//   det   : the step count of a program is the same on every run.
// One JSON object per line.  `viol` is set by the Go-side oracle (written from
// the property text only); the Coq side re-evaluates model and specification on
// the lines marked `coq`.
package main

import (
	"bytes"
	"encoding/json"
	"flag"
	"fmt"
	"os"
	osexec "os/exec"
	"strconv"
	"strings"
	"sync"
	"sync/atomic"
	"time"

	"go.starlark.net/starlark"
	"go.starlark.net/syntax"

	"verifharness/internal/hx"
)

var opts = &syntax.FileOptions{Set: true, While: true, TopLevelControl: true, GlobalReassign: true, Recursion: true}

var reasons = []string{"too many steps", "r1", "r2", "r3 quota 100% used %s %d%%", "r4", "watchdog", ""} // reasons are data, not printf formats

const watchdogReason = 5
const emptyReason = 6 // thread.Cancel(""): a reason like any other

type op struct {
	C int    `json:"c"`           // >0: Cancel(reasons[c]); 0: Uncancel; -1: SetMaxExecutionSteps(ExecutionSteps()+M)
	M uint64 `json:"m,omitempty"` // for c == -1
}

type entry struct {
	Ord   int    `json:"ord"`
	Steps uint64 `json:"steps"`
}

// host state shared with the built-in b()
type host struct {
	mu      sync.Mutex
	log     []entry
	count   int64 // atomic mirror of len(log)
	ord     int
	plan    map[int][]op
	other   bool // perform the plan on another goroutine while b() waits
	panicAt int
	sepLoad  bool   // run loaded modules on a fresh thread each (to measure their cost separately)
	sepSteps uint64 // steps counted on those threads
}

func (h *host) builtin(thread *starlark.Thread, _ *starlark.Builtin, args starlark.Tuple, kwargs []starlark.Tuple) (starlark.Value, error) {
	h.ord++
	k := h.ord
	h.mu.Lock()
	h.log = append(h.log, entry{k, thread.ExecutionSteps()})
	h.mu.Unlock()
	atomic.AddInt64(&h.count, 1)
	if ops, ok := h.plan[k]; ok {
		do := func() {
			for _, o := range ops {
				switch {
				case o.C > 0:
					thread.Cancel(reasons[o.C])
				case o.C == 0:
					thread.Uncancel()
				default: // the limit is installed / lowered while Starlark code is running
					thread.SetMaxExecutionSteps(thread.ExecutionSteps() + o.M)
				}
			}
		}
		if h.other {
			done := make(chan struct{})
			go func() { do(); close(done) }()
			<-done
		} else {
			do()
		}
	}
	return starlark.None, nil
}

type obs struct {
	Res    string `json:"res"` // ok err cancelled
	Reason int    `json:"reason"`
	Steps  uint64 `json:"steps"` // thread counter after the execution
	NLog   int    `json:"nlog"`
	Depth  int    `json:"depth"`
	Msg    string `json:"msg,omitempty"`
}

func classify(err error) (string, int) {
	if err == nil {
		return "ok", -1
	}
	msg := err.Error()
	if strings.Contains(msg, "cancelled") {
		if strings.HasSuffix(msg, "cancelled: ") {
			return "cancelled", emptyReason
		}
		for i, r := range reasons {
			if r == "" {
				continue
			}
			if strings.HasSuffix(msg, ": "+r) {
				return "cancelled", i
			}
		}
		return "cancelled", 99
	}
	return "err", -1
}

func exec(thread *starlark.Thread, h *host, src string) (o obs) {
	h.ord = 0
	h.mu.Lock()
	h.log = nil
	h.mu.Unlock()
	atomic.StoreInt64(&h.count, 0)
	pre := starlark.StringDict{"b": starlark.NewBuiltin("b", h.builtin), "hostcall": starlark.NewBuiltin("hostcall", hostcall)}
	// load(): the module runs on the SAME thread (shared step budget), unless h.sepLoad
	cache := map[string]starlark.StringDict{}
	h.sepSteps = 0
	thread.Load = func(t *starlark.Thread, module string) (starlark.StringDict, error) {
		if g, ok := cache[module]; ok {
			return g, nil
		}
		msrc, ok := modules[module]
		if !ok {
			return nil, fmt.Errorf("no module %s", module)
		}
		lt := t
		if h.sepLoad {
			lt = &starlark.Thread{Load: t.Load}
		}
		g, err := starlark.ExecFileOptions(opts, lt, module, msrc, pre)
		if h.sepLoad {
			h.sepSteps += lt.ExecutionSteps()
		}
		if err == nil {
			cache[module] = g
		}
		return g, err
	}
	// a run that nothing stops is stopped by the watchdog (and reported)
	done := make(chan struct{})
	go func() {
		select {
		case <-done:
		case <-time.After(watchdogDelay()):
			// nothing has stopped the run: clear whatever occupies the reason slot and cancel for good
			atomic.AddInt64(&watchdogFired, 1)
			thread.Uncancel()
			thread.Cancel(reasons[watchdogReason])
		}
	}()
	_, err := starlark.ExecFileOptions(opts, thread, "p.star", src, pre)
	close(done)
	o.Res, o.Reason = classify(err)
	if err != nil {
		o.Msg = err.Error()
		if len(o.Msg) > 80 {
			o.Msg = o.Msg[:80]
		}
	}
	o.Steps = thread.ExecutionSteps()
	o.NLog = len(h.log)
	o.Depth = thread.CallStackDepth()
	return
}

var watchdogAfter = 4 * time.Second
var watchdogFired int64

// once the watchdog has had to fire a few times the tree is broken anyway: do not wait long for the rest
func watchdogDelay() time.Duration {
	if atomic.LoadInt64(&watchdogFired) > 4 {
		return 40 * time.Millisecond
	}
	return watchdogAfter
}

const asyncSafety = 40000000

// cancelSeq is a host iterable whose iterator cancels the thread when it yields element `at`.
type cancelSeq struct {
	th        *starlark.Thread
	n, at     int
	cancelled bool
	after     int // elements fetched after the cancellation
}

func (s *cancelSeq) String() string        { return "cancelSeq" }
func (s *cancelSeq) Type() string          { return "cancelSeq" }
func (s *cancelSeq) Freeze()               {}
func (s *cancelSeq) Truth() starlark.Bool  { return true }
func (s *cancelSeq) Hash() (uint32, error) { return 0, fmt.Errorf("unhashable") }
func (s *cancelSeq) Iterate() starlark.Iterator { return &cancelIter{s: s} }

type cancelIter struct {
	s *cancelSeq
	i int
}

func (it *cancelIter) Next(p *starlark.Value) bool {
	if it.i >= it.s.n {
		return false
	}
	if it.s.cancelled {
		it.s.after++
	}
	if it.i == it.s.at {
		it.s.th.Cancel("r1")
		it.s.cancelled = true
	}
	*p = starlark.MakeInt(it.i)
	it.i++
	return true
}
func (it *cancelIter) Done() {}

// hostcall(f, x): host code calling back into Starlark on the same thread
func hostcall(t *starlark.Thread, _ *starlark.Builtin, args starlark.Tuple, _ []starlark.Tuple) (starlark.Value, error) {
	return starlark.Call(t, args[0], args[1:], nil)
}

// modules available to load()
var modules = map[string]string{
	"m1": "def f(n):\n    for i in range(n):\n        b()\n    return n\nb()\nx = [b() for _ in range(3)]\n",
	"m2": "load(\"m1\", \"f\")\ndef g(n):\n    return f(n) + f(1)\ny = g(2)\nb()\n",
	"m3": "z = sorted([3, 1, 2], key=lambda v: -v)\ndef h(v):\n    b()\n    return v\n",
	"mloop": "def spin():\n    while True:\n        b()\nw = [i for i in range(20)]\n",
}

// ---- programs ----
type prog struct {
	Name string
	Src  string
	Inf  bool // does not terminate (by construction)
}

var fixed = []prog{
	{"straight", "x = 1\nb()\ny = x + 2\nb()\nz = [x, y]\n", false},
	{"empty", "pass\n", false},
	{"for", "for i in range(5):\n    b()\n", false},
	{"for-break", "for i in range(9):\n    if i == 3:\n        break\n    b()\nb()\n", false},
	{"rec", "def f(n):\n    if n == 0:\n        b()\n        return 0\n    return f(n-1) + 1\nf(6)\nb()\n", false},
	{"comp", "l = [b() for i in range(4) for j in range(2)]\nd = {i: b() for i in range(3)}\n", false},
	{"sorted-key", "def k(x):\n    b()\n    return -x\nl = sorted([3, 1, 2], key=k)\nb()\n", false},
	{"err-div", "b()\nx = 1 // 0\nb()\n", false},
	{"err-fail", "def f():\n    b()\n    fail('boom')\nf()\n", false},
	{"while", "i = 0\nwhile i < 5:\n    i += 1\n    b()\n", false},
	{"nested-def", "def g(x):\n    return [b() for _ in range(x)]\ndef f(n):\n    for i in range(n):\n        g(i)\n    return n\nf(4)\n", false},
	{"unpack-args", "def f(*a, **k):\n    b()\n    return len(a)\nf(*[1,2,3], **{'x': 1})\n(p, q) = (1, 2)\nb()\n", false},
	{"load", "load(\"m1\", \"f\")\nb()\nf(3)\nb()\n", false},
	{"load-nested", "b()\nload(\"m2\", \"g\")\nload(\"m1\", \"f\")\ng(1)\nf(2)\nb()\n", false},
	{"load-late", "x = [b() for _ in range(2)]\nload(\"m3\", \"h\")\ny = sorted([2, 1], key=h)\nb()\n", false},
	{"load-then-spin", "b()\nload(\"mloop\", \"spin\")\nspin()\n", true},
	{"hostcall", "def k(x):\n    b()\n    return [b() for _ in range(x)]\nhostcall(k, 2)\nb()\nmax([1, 2], key=lambda v: hostcall(k, v) and v)\nb()\n", false},
	{"loop-no-calls", "x = 0\nfor i in range(1 << 60):\n    x += i\n", true},
	{"while-true-b", "while True:\n    b()\n", true},
	{"while-true", "while True:\n    pass\n", true},
	{"unbounded-rec", "def f(n):\n    b()\n    return f(n+1)\nf(0)\n", true},
	{"unbounded-rec-quiet", "def f(n):\n    return f(n+1) + 1\nf(0)\n", true},
	{"huge-range", "for i in range(1 << 60):\n    b()\n", true},
	{"huge-range-comp", "x = [None for i in range(1 << 60) if i < 0]\n", true},
	{"huge-nested", "def f():\n    for i in range(1 << 40):\n        for j in range(1 << 40):\n            if j % 3 == 0:\n                b()\nf()\n", true},
	{"mutual", "def f(n):\n    return g(n)\ndef g(n):\n    b()\n    return f(n)\nf(1)\n", true},
	{"sorted-key-inf", "def k(x):\n    while True:\n        b()\nsorted([2, 1], key=k)\n", true},
}

// random structured programs
func genBlock(r *hx.Rand, depth int, ind string, inFn bool, sb *strings.Builder, loopvar *int) {
	n := 1 + r.Intn(3)
	for i := 0; i < n; i++ {
		switch c := r.Intn(9); {
		case c <= 1:
			fmt.Fprintf(sb, "%sb()\n", ind)
		case c == 2:
			fmt.Fprintf(sb, "%sv%d = %d + %d\n", ind, r.Intn(3), r.Intn(9), r.Intn(9))
		case c == 3 && depth < 3:
			*loopvar++
			v := *loopvar
			fmt.Fprintf(sb, "%sfor i%d in range(%d):\n", ind, v, 1+r.Intn(4))
			genBlock(r, depth+1, ind+"    ", inFn, sb, loopvar)
		case c == 4 && depth < 3:
			fmt.Fprintf(sb, "%sif %d %% 2 == %d:\n", ind, r.Intn(5), r.Intn(2))
			genBlock(r, depth+1, ind+"    ", inFn, sb, loopvar)
		case c == 5:
			fmt.Fprintf(sb, "%sw = [b() for _ in range(%d)]\n", ind, r.Intn(4))
		case c == 6 && !inFn:
			fmt.Fprintf(sb, "%sh(%d)\n", ind, r.Intn(4))
		case c == 7 && depth < 2:
			*loopvar++
			v := *loopvar
			fmt.Fprintf(sb, "%sc%d = 0\n%swhile c%d < %d:\n%s    c%d += 1\n", ind, v, ind, v, 1+r.Intn(3), ind, v)
			genBlock(r, depth+1, ind+"    ", inFn, sb, loopvar)
		default:
			fmt.Fprintf(sb, "%spass\n", ind)
		}
	}
}

func genProg(r *hx.Rand, id int) prog {
	var sb strings.Builder
	lv := 0
	sb.WriteString("def h(n):\n    if n > 0:\n        h(n - 1)\n")
	genBlock(r, 1, "    ", true, &sb, &lv)
	sb.WriteString("    return n\n")
	genBlock(r, 0, "", false, &sb, &lv)
	inf := false
	if r.Intn(4) == 0 { // make it non-terminating
		inf = true
		switch r.Intn(3) {
		case 0:
			sb.WriteString("while True:\n    h(1)\n")
		case 1:
			sb.WriteString("def u(n):\n    h(0)\n    return u(n)\nu(0)\n")
		default:
			sb.WriteString("for q in range(1 << 50):\n    b()\n")
		}
	}
	return prog{fmt.Sprintf("gen%d", id), sb.String(), inf}
}

// ---- measured shape of a program ----
type shape struct {
	T    uint64   `json:"t"`    // loop heads of the (capped) unlimited run
	End  string   `json:"end"`  // ok err inf
	Idx  []uint64 `json:"idx"`  // step index of every b() call
	Capd bool     `json:"capd"` // the measurement was cut at the cap
}

func measure(p prog, cap uint64) (shape, obs) {
	h := &host{}
	th := &starlark.Thread{}
	th.SetMaxExecutionSteps(cap)
	o := exec(th, h, p.Src)
	s := shape{T: o.Steps}
	for _, e := range h.log {
		s.Idx = append(s.Idx, e.Steps)
	}
	switch o.Res {
	case "ok":
		s.End = "ok"
	case "err":
		s.End = "err"
	default:
		s.End = "inf"
		s.Capd = true
	}
	return s, o
}

type line struct {
	Kind  string  `json:"kind"`
	Prog  string  `json:"prog"`
	Src   string  `json:"src,omitempty"`
	Shape *shape  `json:"shape,omitempty"`
	N     uint64  `json:"n"`
	Start uint64  `json:"start,omitempty"` // setmax-in-builtin: the limit set before the run; jump (re-used thread): Steps before the run
	K     int     `json:"k,omitempty"`
	Ops   []op    `json:"ops,omitempty"`
	Other bool    `json:"other,omitempty"`
	Hook  bool    `json:"hook,omitempty"`
	Obs   *obs    `json:"obs,omitempty"`
	Life  []lifeE `json:"life,omitempty"`
	Coq   bool    `json:"coq"`
	Viol  string  `json:"viol,omitempty"`
	Late  int64   `json:"late,omitempty"`
	Note  string  `json:"note,omitempty"`
}

type lifeE struct {
	Ev   string      `json:"ev"` // cancel uncancel setmax read exec
	N    uint64      `json:"n,omitempty"`
	C    int         `json:"c,omitempty"`
	Prog string      `json:"prog,omitempty"`
	Shp  *shape      `json:"shape,omitempty"`
	Plan map[int][]op `json:"plan,omitempty"`
	Obs  *obs        `json:"obs,omitempty"`
}

// Go-side oracle for a fresh thread with limit n (0 = none): property text only.
func oracleFresh(s shape, n uint64, plan map[int][]op, o obs, idx []uint64) string {
	// no built-in call at or beyond step n
	for _, st := range idx {
		if n > 0 && st >= n {
			return fmt.Sprintf("built-in entered at step %d with limit %d", st, n)
		}
	}
	if o.Depth != 0 {
		return "call stack not empty after return"
	}
	if o.Res == "cancelled" && o.Reason == watchdogReason {
		return "nothing stopped the execution: the watchdog had to cancel it"
	}
	executed := o.Steps
	if o.Res == "cancelled" {
		executed--
	}
	if n > 0 && executed >= n {
		return fmt.Sprintf("executed %d steps with limit %d", executed, n)
	}
	if len(plan) == 0 {
		needs := s.T // steps the program needs (>= cap if inf)
		if n > 0 && needs >= n {
			if o.Res != "cancelled" || o.Reason != 0 {
				return fmt.Sprintf("needs %d steps, limit %d, result %s/%d", needs, n, o.Res, o.Reason)
			}
		} else if s.End != "inf" {
			if o.Res != s.End || o.Steps != s.T {
				return fmt.Sprintf("limit %d not reached (needs %d) but result %s steps %d", n, needs, o.Res, o.Steps)
			}
		}
	}
	return ""
}

var depthProgs = []string{"def f(n):\n    d()\n    return f(n + 1)\nf(0)\n", "def f(n):\n    d()\n    return g(n)\ndef g(n):\n    return [f(n + 1) for _ in range(1)]\nf(0)\n",
	// the recursion passes through a built-in call-back at every level (frames entered by starlark.Call from host code)
	"def f(n):\n    d()\n    return max([n + 1], key=f)\nf(0)\n"}

type depthOut struct {
	Res      string `json:"res"`
	Reason   int    `json:"reason"`
	MaxDepth int    `json:"max_depth"`
	Steps    uint64 `json:"steps"`
	Depth    int    `json:"depth"`
}

func childDepth(prog int, budget uint64) {
	maxDepth := 0
	pre := starlark.StringDict{"d": starlark.NewBuiltin("d", func(t *starlark.Thread, _ *starlark.Builtin, _ starlark.Tuple, _ []starlark.Tuple) (starlark.Value, error) {
		if n := t.CallStackDepth(); n > maxDepth {
			maxDepth = n
		}
		return starlark.None, nil
	})}
	th := &starlark.Thread{}
	th.SetMaxExecutionSteps(budget)
	_, err := starlark.ExecFileOptions(opts, th, "p.star", depthProgs[prog], pre)
	res, reason := classify(err)
	b, _ := json.Marshal(depthOut{res, reason, maxDepth, th.ExecutionSteps(), th.CallStackDepth()})
	os.Stdout.Write(b)
}

func main() {
	if len(os.Args) > 3 && os.Args[1] == "child-depth" {
		p, _ := strconv.Atoi(os.Args[2])
		b, _ := strconv.ParseUint(os.Args[3], 10, 64)
		childDepth(p, b)
		return
	}
	seed := flag.Uint64("seed", 1, "")
	ngen := flag.Int("gen", 20, "random programs")
	capN := flag.Uint64("cap", 400, "largest limit tried on non-terminating programs / measurement cap")
	coqBudget := flag.Int("coq", 3000, "cases handed to Coq")
	nlife := flag.Int("life", 200, "scripted lives")
	nasync := flag.Int("async", 50, "asynchronous cancellations")
	ndepth := flag.Int("depth", 0, "unbounded-recursion runs to the frame-depth limit (about 10 s each)")
	flag.Parse()
	r := hx.NewRand(*seed)
	progs := append([]prog{}, fixed...)
	for i := 0; i < *ngen; i++ {
		progs = append(progs, genProg(r.Split(), i))
	}
	shapes := map[string]shape{}
	probeShape, _ = measure(prog{"probe", "pass\n", false}, 1000)
	var okProgs, allProgs []prog
	coqLeft := *coqBudget
	perProg := *coqBudget / (2 * len(progs))
	if perProg < 8 {
		perProg = 8
	}
	for _, p := range progs {
		s, o0 := measure(p, *capN+50)
		if s.End == "inf" != p.Inf && !strings.HasPrefix(p.Name, "gen") {
			hx.Emit(line{Kind: "note", Prog: p.Name, Note: fmt.Sprintf("expected inf=%v, measured end=%s (%s)", p.Inf, s.End, o0.Msg)})
		}
		if s.End == "err" && strings.Contains(o0.Msg, "p.star:") {
			// a static error (resolve / parse): not a run at all
			hx.Emit(line{Kind: "note", Prog: p.Name, Note: "static error: " + o0.Msg})
			continue
		}
		shapes[p.Name] = s
		allProgs = append(allProgs, p)
		if s.End != "inf" {
			okProgs = append(okProgs, p)
		}
		sc := s
		hx.Emit(line{Kind: "shape", Prog: p.Name, Src: p.Src, Shape: &sc})
		// the count includes the steps of modules loaded on the same thread: compare with the same run
		// whose Load handler executes each module on a thread of its own
		if s.End != "inf" && strings.Contains(p.Src, "load(") {
			th := &starlark.Thread{}
			h := &host{sepLoad: true}
			o := exec(th, h, p.Src)
			viol := ""
			if o.Steps+h.sepSteps != s.T {
				viol = fmt.Sprintf("the program with its modules on the same thread counts %d steps; main alone %d + modules alone %d = %d", s.T, o.Steps, h.sepSteps, o.Steps+h.sepSteps)
			}
			oo := o
			hx.Emit(line{Kind: "loadsum", Prog: p.Name, N: h.sepSteps, Obs: &oo, Viol: viol})
		}
		// det: same count on every run, on fresh and on used threads
		if s.End != "inf" {
			th := &starlark.Thread{}
			h := &host{}
			var prev uint64
			for i := 0; i < 3; i++ {
				o := exec(th, h, p.Src)
				viol := ""
				if o.Steps-prev != s.T || o.Res != s.End || o.NLog != len(s.Idx) {
					viol = fmt.Sprintf("run %d on the same thread: steps %d (expected %d) res %s", i, o.Steps-prev, s.T, o.Res)
				}
				oo := o
				hx.Emit(line{Kind: "det", Prog: p.Name, N: uint64(i), Obs: &oo, Viol: viol})
				prev = o.Steps
			}
		}
		// sweep
		top := s.T + 2
		if s.End == "inf" {
			top = *capN
		}
		interesting := map[uint64]bool{1: true, 2: true, 3: true, s.T - 1: true, s.T: true, s.T + 1: true, s.T + 2: true}
		for _, ix := range s.Idx {
			interesting[ix] = true
			interesting[ix+1] = true
		}
		quota := perProg
		for n := uint64(1); n <= top; n++ {
			h := &host{}
			th := &starlark.Thread{}
			th.SetMaxExecutionSteps(n)
			o := exec(th, h, p.Src)
			var idx []uint64
			for _, e := range h.log {
				idx = append(idx, e.Steps)
			}
			viol := oracleFresh(s, n, nil, o, idx)
			// the log must be the prefix of the measured one
			for i, st := range idx {
				if i >= len(s.Idx) || s.Idx[i] != st {
					viol = fmt.Sprintf("built-in call %d at step %d differs from the unlimited run", i, st)
				}
			}
			coq := false
			if coqLeft > 0 && quota > 0 && (interesting[n] || r.Intn(int(top)) < perProg) {
				coq = true
				coqLeft--
				quota--
			}
			if coq || viol != "" {
				oo := o
				hx.Emit(line{Kind: "sweep", Prog: p.Name, N: n, Obs: &oo, Coq: coq, Viol: viol})
			} else {
				hx.Emit(line{Kind: "sweep", Prog: p.Name, N: n})
			}
		}
		// inj: cancel scripts from inside the k-th built-in call
		scripts := [][]op{{{C: 1}}, {{C: 1}, {C: 2}}, {{C: 1}, {C: 0}}, {{C: 0}, {C: 2}}, {{C: 1}, {C: 0}, {C: 3}}, {{C: 0}}, {{C: emptyReason}}, {{C: emptyReason}, {C: 2}}, {{C: 0}, {C: emptyReason}}}
		for k := 1; k <= len(s.Idx) && k <= 12; k++ {
			for si, ops := range scripts {
				for _, other := range []bool{false, true} {
					for _, n := range []uint64{0, s.Idx[k-1], s.Idx[k-1] + 1, s.Idx[k-1] + 2, s.T + 5} {
						if n == 0 && s.End == "inf" {
							ends := false // does the script leave the thread cancelled?
							c := -1
							for _, o := range ops {
								if o.C > 0 && c < 0 {
									c = o.C
								} else if o.C == 0 {
									c = -1
								}
							}
							ends = c > 0
							if !ends {
								continue // would not terminate
							}
						}
						if (si+k)%2 == 1 && other {
							continue
						}
						if s.End == "inf" && n > *capN {
							continue // beyond the measured prefix
						}
						h := &host{plan: map[int][]op{k: ops}, other: other}
						th := &starlark.Thread{}
						th.SetMaxExecutionSteps(n)
						o := exec(th, h, p.Src)
						var idx []uint64
						for _, e := range h.log {
							idx = append(idx, e.Steps)
						}
						viol := oracleFresh(s, n, h.plan, o, idx)
						coq := coqLeft > 0
						if coq {
							coqLeft--
						}
						oo := o
						hx.Emit(line{Kind: "inj", Prog: p.Name, N: n, K: k, Ops: ops, Other: other, Obs: &oo, Coq: coq, Viol: viol})
					}
				}
			}
		}
	}
	// depth: unbounded recursion ends with an error at the frame-depth limit -- without a step limit, and with a
	// budget large enough for the depth limit to come first.  Each run is a child process (a missing limit may
	// overflow the Go stack and kill it).
	for di, dc := range []struct {
		prog   int
		budget uint64
	}{{0, 1100000}, {2, 1500000}, {0, 0}, {1, 1500000}, {2, 0}} {
		if di >= *ndepth {
			break
		}
		cmd := osexec.Command(os.Args[0], "child-depth", fmt.Sprint(dc.prog), fmt.Sprint(dc.budget))
		var outb bytes.Buffer
		cmd.Stdout = &outb
		timer := time.AfterFunc(150*time.Second, func() { cmd.Process.Kill() })
		err := cmd.Run()
		timer.Stop()
		var d depthOut
		viol := ""
		if err != nil || json.Unmarshal(outb.Bytes(), &d) != nil {
			viol = fmt.Sprintf("the process running unbounded recursion with budget %d died or hung: %v", dc.budget, err)
		} else {
			if d.Res != "err" {
				viol = fmt.Sprintf("unbounded recursion with budget %d ended with %s/%d at depth %d, not with the frame-depth error", dc.budget, d.Res, d.Reason, d.MaxDepth)
			}
			if d.MaxDepth > 100001 {
				viol = fmt.Sprintf("call stack reached depth %d (budget %d)", d.MaxDepth, dc.budget)
			}
			if d.Depth != 0 {
				viol = "call stack not empty after return"
			}
		}
		hx.Emit(line{Kind: "depth", Prog: "unbounded-rec", Src: depthProgs[dc.prog], N: dc.budget, K: d.MaxDepth, Obs: &obs{Res: d.Res, Reason: d.Reason, Steps: d.Steps, Depth: d.Depth}, Viol: viol})
	}
	// life: scripted sequences on one thread: Cancel / Uncancel / SetMaxExecutionSteps / ExecutionSteps / execute
	for li := 0; li < *nlife; li++ {
		rr := r.Split()
		var n uint64
		switch rr.Intn(3) {
		case 0:
			n = 0
		case 1:
			n = uint64(1 + rr.Intn(60))
		default:
			n = uint64(20 + rr.Intn(int(*capN)))
		}
		th := &starlark.Thread{}
		th.SetMaxExecutionSteps(n)
		// one life in three enforces its limit through an OnMaxSteps hook with a reason of its own
		hook := rr.Intn(3) == 0
		if hook {
			th.OnMaxSteps = func(t *starlark.Thread) { t.Cancel(reasons[4]) }
		}
		h := &host{}
		var evs []lifeE
		m := 2 + rr.Intn(8)
		viol := ""
		cur := -1        // reason in force per the property text
		lim := n         // the limit last set
		started := false // has the thread executed anything yet
		unlimited := func() bool { return lim == 0 && !started || lim > 1<<40 }
		for i := 0; i < m; i++ {
			switch c := rr.Intn(8); {
			case c == 0:
				x := []int{1, 2, 3, 4, emptyReason}[rr.Intn(5)]
				th.Cancel(reasons[x])
				if cur < 0 {
					cur = x
				}
				evs = append(evs, lifeE{Ev: "cancel", C: x})
			case c == 1:
				th.Uncancel()
				cur = -1
				evs = append(evs, lifeE{Ev: "uncancel"})
			case c == 2 || c == 3:
				// raise / lower / same / 0; has no effect on the cancellation state
				st := th.ExecutionSteps()
				var x uint64
				switch rr.Intn(5) {
				case 0:
					x = st + uint64(1+rr.Intn(80))
				case 1:
					x = st / 2
				case 2:
					x = lim
					if x > 1<<40 {
						x = st + 30
					}
				case 3:
					x = 0
				default:
					x = st + uint64(rr.Intn(int(*capN)))
				}
				if x == 0 && !started {
					x = st + 50 // 0 before the first execution means "no limit": keep lives finite
				}
				th.SetMaxExecutionSteps(x)
				lim = x
				evs = append(evs, lifeE{Ev: "setmax", N: x})
			case c == 4:
				evs = append(evs, lifeE{Ev: "read", N: th.ExecutionSteps()})
			default:
				pool := allProgs
				if unlimited() {
					pool = okProgs
				}
				p := hx.Pick(rr, pool)
				s := shapes[p.Name]
				plan := map[int][]op{}
				if len(s.Idx) > 0 && rr.Intn(2) == 0 {
					k := 1 + rr.Intn(len(s.Idx))
					plan[k] = [][]op{{{C: 1 + rr.Intn(4)}}, {{C: 0}}, {{C: 1 + rr.Intn(4)}, {C: 0}}, {{C: 0}, {C: 1 + rr.Intn(4)}}, {{C: emptyReason}}}[rr.Intn(5)]
				}
				if !unlimited() && s.End == "inf" && lim > *capN {
					continue // beyond the measured prefix
				}
				h.plan = plan
				before := th.ExecutionSteps()
				if !started && lim == 0 {
					lim = 1 << 63 // Call's one-time initialisation: 0 means none
				}
				started = true
				o := exec(th, h, p.Src)
				// property text: an execution started while a reason is in force stops at once with that reason
				if cur >= 0 {
					if o.Res != "cancelled" || o.Reason != cur || o.NLog != 0 || o.Steps != before+1 {
						viol = fmt.Sprintf("event %d: execution started while cancelled (%s): %s/%d nlog %d steps +%d", i, reasons[cur], o.Res, o.Reason, o.NLog, o.Steps-before)
					}
				}
				if o.Depth != 0 {
					viol = "call stack not empty after return"
				}
				if o.Res == "cancelled" && o.Reason == watchdogReason {
					viol = fmt.Sprintf("event %d: nothing stopped the execution (limit %d, steps %d): the watchdog had to cancel it", i, lim, o.Steps)
				}
				for _, e := range h.log {
					if e.Steps >= lim {
						viol = fmt.Sprintf("event %d: built-in entered at step %d with limit %d", i, e.Steps, lim)
					}
				}
				sc := s
				oo := o
				evs = append(evs, lifeE{Ev: "exec", Prog: p.Name, Shp: &sc, Plan: plan, Obs: &oo})
				if o.Res == "cancelled" && o.Reason == watchdogReason {
					i = m // the rest of the life is meaningless
					break
				}
				// a scripted plan may change what is in force; recompute from the observation of a trivial probe
				cur = probeReason(th, &evs)
			}
		}
		hx.Emit(line{Kind: "life", N: n, Hook: hook, Life: evs, Coq: li < *coqBudget/10+20, Viol: viol})
	}
	// setmax-in-builtin: the limit is installed or lowered by a built-in while the script is running; the rest of the
	// computation stays in frames that were already active (loops at top level and in the callers)
	for _, p := range allProgs {
		s := shapes[p.Name]
		for k := 1; k <= len(s.Idx) && k <= 6; k++ {
			for _, m := range []uint64{1, 2, 5, 30} {
				for _, start := range []uint64{0, *capN + 40} {
					if start == 0 && s.End == "inf" {
						continue // with the limit ignored the run would only be stopped by the watchdog
					}
					h := &host{plan: map[int][]op{k: {{C: -1, M: m}}}}
					th := &starlark.Thread{}
					th.SetMaxExecutionSteps(start)
					o := exec(th, h, p.Src)
					newLimit := s.Idx[k-1] + m
					viol := ""
					for _, e := range h.log {
						if e.Ord > k && e.Steps >= newLimit {
							viol = fmt.Sprintf("built-in entered at step %d although call %d had set the limit to %d", e.Steps, k, newLimit)
						}
					}
					if s.T >= newLimit {
						if o.Res != "cancelled" || o.Reason != 0 || o.Steps != newLimit {
							viol = fmt.Sprintf("limit set to %d by built-in call %d (at step %d), program needs %d: result %s/%d at step %d", newLimit, k, s.Idx[k-1], s.T, o.Res, o.Reason, o.Steps)
						}
					} else if o.Res != s.End || o.Steps != s.T {
						viol = fmt.Sprintf("limit set to %d by built-in call %d is not reached (program needs %d): result %s at step %d", newLimit, k, s.T, o.Res, o.Steps)
					}
					oo := o
					hx.Emit(line{Kind: "setmax-in-builtin", Prog: p.Name, N: newLimit, Start: start, K: k, Ops: h.plan[k], Obs: &oo, Viol: viol})
				}
			}
		}
	}
	// jump: the step counter gets past the limit without landing on it -- a built-in charges steps by adding to
	// thread.Steps, or a re-used thread is given a limit below what it has already counted -- with the default
	// behaviour and with an OnMaxSteps hook that cancels
	const chargeSrc = "b()\nx = 1\nb()\ny = [b() for _ in range(3)]\nb()\n"
	chargeShape, _ := measure(prog{"charge", chargeSrc, false}, 1000) // the profile of the program below, for the Coq side
	for _, hook := range []bool{false, true} {
		for _, charge := range []uint64{1, 7, 1000} {
			for _, limit := range []uint64{5, 6, 9, 40} {
				th := &starlark.Thread{}
				th.SetMaxExecutionSteps(limit)
				want := 0
				if hook {
					th.OnMaxSteps = func(t *starlark.Thread) { t.Cancel(reasons[4]) }
					want = 4
				}
				calls := 0
				var after []uint64
				jumped := false
				pre := starlark.StringDict{"b": starlark.NewBuiltin("b", func(t *starlark.Thread, _ *starlark.Builtin, _ starlark.Tuple, _ []starlark.Tuple) (starlark.Value, error) {
					calls++
					if jumped {
						after = append(after, t.Steps)
					}
					if calls == 1 {
						t.Steps += charge // charge for expensive work
						jumped = t.Steps >= limit
					}
					return starlark.None, nil
				})}
				src := chargeSrc
				csh := chargeShape
				_, err := starlark.ExecFileOptions(opts, th, "p.star", src, pre)
				res, reason := classify(err)
				viol := ""
				if jumped && len(after) > 0 {
					viol = fmt.Sprintf("%d more built-in calls after the counter had passed the limit %d (steps %v)", len(after), limit, after)
				}
				if jumped && (res != "cancelled" || reason != want) {
					viol = fmt.Sprintf("counter charged past the limit %d: result %s/%d", limit, res, reason)
				}
				if !jumped && th.Steps >= limit && res != "cancelled" {
					viol = fmt.Sprintf("limit %d, steps %d, result %s", limit, th.Steps, res)
				}
				hx.Emit(line{Kind: "jump", Prog: "charge", Shape: &csh, N: limit, K: int(charge), Hook: hook, Src: src + "# b() adds K to thread.Steps on its first call", Obs: &obs{Res: res, Reason: reason, Steps: th.Steps, NLog: calls}, Viol: viol})
			}
		}
		// a re-used thread: it counts T steps without a limit, then gets a limit below T
		for _, p := range okProgs {
			if len(shapes[p.Name].Idx) == 0 || shapes[p.Name].T < 6 {
				continue
			}
			th := &starlark.Thread{}
			want := 0
			if hook {
				th.OnMaxSteps = func(t *starlark.Thread) { t.Cancel(reasons[4]) }
				want = 4
			}
			h := &host{}
			exec(th, h, p.Src)
			st := th.ExecutionSteps()
			for _, lim := range []uint64{1, st / 2, st - 1, st} {
				th.Uncancel()
				th.SetMaxExecutionSteps(lim)
				o := exec(th, h, p.Src)
				viol := ""
				if o.Res != "cancelled" || o.Reason != want || o.NLog != 0 {
					viol = fmt.Sprintf("thread that has counted %d steps, limit then set to %d: result %s/%d, %d built-in calls", st, lim, o.Res, o.Reason, o.NLog)
				}
				oo := o
				hx.Emit(line{Kind: "jump", Prog: p.Name, N: lim, Start: st, Hook: hook, Obs: &oo, Viol: viol})
				st = th.ExecutionSteps()
			}
		}
	}
	// itercancel: host code that is not a call (an iterator's Next) cancels in the middle of a loop whose body makes no calls
	for _, at := range []int{0, 1, 5, 40} {
		th := &starlark.Thread{}
		th.SetMaxExecutionSteps(20000)
		seq := &cancelSeq{th: th, n: 200, at: at}
		_, err := starlark.ExecFileOptions(opts, th, "p.star", "x = 0\nfor i in seq:\n    x += i\n", starlark.StringDict{"seq": seq})
		res, reason := classify(err)
		viol := ""
		if seq.after > 0 {
			viol = fmt.Sprintf("the loop fetched %d more elements after the iterator's Next had cancelled the thread", seq.after)
		}
		if res != "cancelled" || reason != 1 {
			viol = fmt.Sprintf("cancelled by Next at element %d: result %s/%d", at, res, reason)
		}
		hx.Emit(line{Kind: "itercancel", Prog: "for-no-calls", N: uint64(at), Obs: &obs{Res: res, Reason: reason, Steps: th.ExecutionSteps()}, Viol: viol, Src: "x = 0\nfor i in seq:\n    x += i\n  # seq: host iterable of 200 ints whose Next cancels the thread (reason r1) when it yields element N"})
	}
	// async: Cancel from another goroutine at a random moment
	for ai := 0; ai < *nasync; ai++ {
		rr := r.Split()
		var inf []prog
		for _, p := range allProgs {
			if p.Inf {
				inf = append(inf, p)
			}
		}
		p := hx.Pick(rr, inf)
		h := &host{}
		th := &starlark.Thread{}
		th.SetMaxExecutionSteps(asyncSafety) // only reached if the cancellation is not observed
		delay := time.Duration(rr.Intn(3000)) * time.Microsecond
		two := rr.Intn(3) == 0
		r1idx := 1
		if rr.Intn(3) == 0 {
			r1idx = emptyReason
		}
		var mark int64 = -1
		var wg sync.WaitGroup
		wg.Add(1)
		go func() {
			defer wg.Done()
			time.Sleep(delay)
			th.Cancel(reasons[r1idx])
			mark = atomic.LoadInt64(&h.count)
		}()
		if two {
			wg.Add(1)
			go func() {
				defer wg.Done()
				time.Sleep(delay)
				th.Cancel("r2")
			}()
		}
		o := exec(th, h, p.Src)
		wg.Wait()
		final := atomic.LoadInt64(&h.count)
		viol := ""
		late := final - mark
		if late > 1 {
			viol = fmt.Sprintf("%d built-in calls entered after Cancel had returned", late)
		}
		if o.Res != "cancelled" || !(o.Reason == r1idx || (two && o.Reason == 2)) {
			viol = fmt.Sprintf("result %s/%d (%s)", o.Res, o.Reason, o.Msg)
			if o.Res == "cancelled" && o.Reason == 0 {
				viol = fmt.Sprintf("cancelled from another goroutine after %v but ran on to the safety limit of %d steps", delay, uint64(asyncSafety))
			}
		}
		// cancellation stays in force, with the same reason
		o2 := exec(th, h, "b()\n")
		if o2.Res != "cancelled" || o2.Reason != o.Reason || o2.NLog != 0 || o2.Steps != o.Steps+1 {
			viol = fmt.Sprintf("re-execution after asynchronous cancel: %s/%d nlog %d", o2.Res, o2.Reason, o2.NLog)
		}
		th.Uncancel()
		o3 := exec(th, h, "b()\n")
		if o3.Res != "ok" || o3.NLog != 1 {
			viol = fmt.Sprintf("execution after Uncancel: %s/%d nlog %d", o3.Res, o3.Reason, o3.NLog)
		}
		oo := o
		hx.Emit(line{Kind: "async", Prog: p.Name, Obs: &oo, Late: late, Viol: viol, Note: fmt.Sprint(delay)})
	}
	hx.Flush()
}

var probeShape shape

// probeReason runs the one-instruction program `pass` and reports which reason
// (if any) is in force on the thread; the probe is recorded as an exec event of
// the life so that the Coq side sees it too.
func probeReason(th *starlark.Thread, evs *[]lifeE) int {
	h := &host{}
	before := th.ExecutionSteps()
	o := exec(th, h, "pass\n")
	s := probeShape
	oo := o
	_ = before
	*evs = append(*evs, lifeE{Ev: "exec", Prog: "probe", Shp: &s, Obs: &oo})
	if o.Res == "cancelled" {
		return o.Reason
	}
	return -1
}
