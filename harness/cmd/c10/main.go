// c10: runs the real integer / float operators and numeric built-ins of
// starlark-go on boundary pools and random operands, in the representation
// selected with -rep, and prints one JSON object per observation:
//
//	{"k": kind, "op": template, "a": [operands], "r": observed, "w": oracle, "e": failing-allowed, "arm": big-arm?}
//
// Values are encoded as strings: decimal integer | "f<16 hex digits>" float bits |
// "T"/"F" | "err" | "s:<text>" | "[v,v,...]" | "panic:<msg>".  The oracle "w" is
// computed here with math/big only (never with starlark.Int); "?" = no Go oracle.
package main

import (
	"flag"
	"fmt"
	"math"
	"math/big"
	"os"
	"sort"
	"strings"

	smath "go.starlark.net/lib/math"
	"go.starlark.net/starlark"
	"go.starlark.net/syntax"

	"verifharness/internal/hx"
)

type Case struct {
	K   string   `json:"k"`
	Op  string   `json:"op"`
	A   []string `json:"a"`
	R   string   `json:"r"`
	W   string   `json:"w"`
	E   bool     `json:"e,omitempty"`   // an error is an acceptable outcome as well
	Arm int      `json:"arm,omitempty"` // 1 = result held in the small arm, 2 = in the *big.Int arm
}

// ---------------------------------------------------------------- encoding

func encFloat(f float64) string { return fmt.Sprintf("f%016x", math.Float64bits(f)) }

func encValue(v starlark.Value) string {
	switch v := v.(type) {
	case starlark.Int:
		return v.String()
	case starlark.Float:
		return encFloat(float64(v))
	case starlark.Bool:
		if v {
			return "T"
		}
		return "F"
	case starlark.String:
		return "s:" + string(v)
	case *starlark.List:
		parts := make([]string, v.Len())
		for i := 0; i < v.Len(); i++ {
			parts[i] = encValue(v.Index(i))
		}
		return "[" + strings.Join(parts, ",") + "]"
	case starlark.Tuple:
		parts := make([]string, len(v))
		for i := range v {
			parts[i] = encValue(v[i])
		}
		return "[" + strings.Join(parts, ",") + "]"
	case starlark.NoneType:
		return "None"
	case starlark.Bytes:
		return fmt.Sprintf("y:%x", string(v))
	case *starlark.Set:
		parts := []string{}
		it := v.Iterate()
		defer it.Done()
		var e starlark.Value
		for it.Next(&e) {
			parts = append(parts, encValue(e))
		}
		return "[" + strings.Join(parts, ",") + "]"
	}
	return "other:" + v.Type()
}

type operand struct {
	v starlark.Value
	s string
}

func mkInt(z *big.Int) operand         { return operand{starlark.MakeBigInt(z), z.String()} }
func mkFloat(f float64) operand        { return operand{starlark.Float(f), encFloat(f)} }
func mkStr(s string) operand           { return operand{starlark.String(s), "s:" + s} }
func mkNone() operand                  { return operand{starlark.None, "None"} }
func bi(s string) *big.Int             { z, _ := new(big.Int).SetString(s, 0); return z }
func pow2(n uint) *big.Int             { return new(big.Int).Lsh(big.NewInt(1), n) }
func add(a *big.Int, d int64) *big.Int { return new(big.Int).Add(a, big.NewInt(d)) }
func neg(a *big.Int) *big.Int          { return new(big.Int).Neg(a) }

// ---------------------------------------------------------------- templates

var thread = &starlark.Thread{Name: "c10"}
var funcs = map[string]starlark.Value{}

func compileWith7(templates []string) {
	var sb strings.Builder
	for i, t := range templates {
		fmt.Fprintf(&sb, "def t%d(a0=None, a1=None, a2=None, a3=None, a4=None, a5=None, a6=None):\n    return %s\n", i, t)
	}
	pre := starlark.StringDict{"math": smath.Module}
	g, err := starlark.ExecFileOptions(&syntax.FileOptions{}, thread, "c10.star", sb.String(), pre)
	if err != nil {
		fmt.Fprintln(os.Stderr, "template compile:", err)
		os.Exit(2)
	}
	for i, t := range templates {
		funcs[t] = g[fmt.Sprintf("t%d", i)]
	}
}

func eval(t string, args ...operand) (res string, arm int) {
	defer func() {
		if e := recover(); e != nil {
			res = "panic:" + fmt.Sprint(e)
		}
	}()
	f, ok := funcs[t]
	if !ok {
		panic("unknown template " + t)
	}
	tup := make(starlark.Tuple, len(args))
	for i, a := range args {
		tup[i] = a.v
	}
	v, err := starlark.Call(thread, f, tup, nil)
	if err != nil {
		return "err", 0
	}
	if i, ok := v.(starlark.Int); ok {
		if starlark.VerifIntArm(i) {
			arm = 2
		} else {
			arm = 1
		}
	}
	return encValue(v), arm
}

var counts = map[string]int{}

// trace: announce every case before it is evaluated and flush, so that the input
// of a fatal crash (which no recover() can catch) is on record.
var trace = false

func emit(kind, t string, w string, errOK bool, args ...operand) string {
	a := make([]string, len(args))
	for i := range args {
		a[i] = args[i].s
	}
	if trace {
		hx.Emit(Case{K: "pre", Op: t, A: a, R: kind})
		hx.Flush()
	}
	r, arm := eval(t, args...)
	counts[kind]++
	hx.Emit(Case{K: kind, Op: t, A: a, R: r, W: w, E: errOK, Arm: arm})
	return r
}

// smallLen reports whether an observed length (decimal text) is small enough
// to materialise the sequence: a wrong, huge length must not exhaust memory.
func smallLen(r string) bool {
	z, ok := new(big.Int).SetString(r, 10)
	return ok && z.Sign() >= 0 && z.Cmp(big.NewInt(1000)) <= 0
}

// ---------------------------------------------------------------- source literals and the built-in universe

// evalSrc evaluates source text through the real scanner / parser / compiler.
func evalSrc(src string) (res string) {
	defer func() {
		if e := recover(); e != nil {
			res = "panic:" + fmt.Sprint(e)
		}
	}()
	v, err := starlark.EvalOptions(&syntax.FileOptions{}, thread, "lit.star", src, starlark.StringDict{})
	if err != nil {
		return "err"
	}
	return encValue(v)
}

func emitSrc(kind, class, src, w string) {
	if trace {
		hx.Emit(Case{K: "pre", Op: class, A: []string{"s:" + src}, R: kind})
		hx.Flush()
	}
	counts[kind]++
	hx.Emit(Case{K: kind, Op: class, A: []string{"s:" + src}, R: evalSrc(src), W: w})
}

// literalCases: the int literal of |x| in every radix spelling, through the scanner,
// also negated and printed back; cross-checked with int(text, 0).
func literalCases(x *big.Int) {
	a := new(big.Int).Abs(x)
	for _, f := range []struct {
		pre  string
		base int
	}{{"", 10}, {"0x", 16}, {"0X", 16}, {"0o", 8}, {"0O", 8}, {"0b", 2}, {"0B", 2}} {
		digits := a.Text(f.base)
		if f.pre == "0X" {
			digits = strings.ToUpper(digits)
		}
		lit := f.pre + digits
		class := "literal " + map[string]string{"": "decimal"}[f.pre] + f.pre
		emitSrc("lit", class, lit, a.String())
		emitSrc("lit", class+" negated", "-"+lit, neg(a).String())
		emitSrc("lit", class+" printed %d", "'%d' % "+lit, "s:"+a.Text(10))
		emitSrc("lit", class+" printed %x", "'%x' % -"+lit, "s:"+neg(a).Text(16))
		emitSrc("lit", class+" printed %o", "'%o' % "+lit, "s:"+a.Text(8))
		emitSrc("lit", class+" via int(text, 0)", "int('"+lit+"', 0) == "+lit, "T")
		emitSrc("lit", class+" arithmetic", lit+" + 1 - "+a.Text(10), "1")
	}
}

func callB(fn starlark.Value, args ...starlark.Value) (res string, ok bool) {
	defer func() {
		if e := recover(); e != nil {
			res, ok = "panic:"+fmt.Sprint(e), true
		}
	}()
	v, err := starlark.Call(thread, fn, starlark.Tuple(args), nil)
	if err != nil {
		return "err", false
	}
	return encValue(v), true
}

func emitB(kind, op, w string, errOK bool, fn starlark.Value, args ...operand) {
	a := make([]string, len(args))
	vs := make([]starlark.Value, len(args))
	for i := range args {
		a[i], vs[i] = args[i].s, args[i].v
	}
	if trace {
		hx.Emit(Case{K: "pre", Op: op, A: a, R: kind})
		hx.Flush()
	}
	r, _ := callB(fn, vs...)
	counts[kind]++
	hx.Emit(Case{K: kind, Op: op, A: a, R: r, W: w, E: errOK})
}

func mkList(xs ...*big.Int) operand {
	vals := make([]starlark.Value, len(xs))
	parts := make([]string, len(xs))
	for i, x := range xs {
		vals[i] = starlark.MakeBigInt(x)
		parts[i] = x.String()
	}
	return operand{starlark.NewList(vals), "[" + strings.Join(parts, ",") + "]"}
}

func encInts(xs ...*big.Int) string {
	parts := make([]string, len(xs))
	for i, x := range xs {
		parts[i] = x.String()
	}
	return "[" + strings.Join(parts, ",") + "]"
}

// nearestOrInf is x.Float() as the math module sees it: the nearest float, an infinity when too large.
func nearestOrInf(x *big.Int) float64 {
	f, ok := intToFloat(x)
	if !ok {
		return math.Inf(x.Sign())
	}
	return f
}

// oracles of the universe built-ins on ints: name -> function of one int (nil result = no opinion)
var uniUnary = map[string]func(x *big.Int) (w string, errOK bool){
	"abs":  func(x *big.Int) (string, bool) { return new(big.Int).Abs(x).String(), false },
	"bool": func(x *big.Int) (string, bool) { return boolS(x.Sign() != 0), false },
	"int":  func(x *big.Int) (string, bool) { return x.String(), false },
	"float": func(x *big.Int) (string, bool) {
		if f, ok := intToFloat(x); ok {
			return encFloat(f), false
		}
		return "err", false
	},
	"str":  func(x *big.Int) (string, bool) { return "s:" + x.Text(10), false },
	"repr": func(x *big.Int) (string, bool) { return "s:" + x.Text(10), false },
	"type": func(x *big.Int) (string, bool) { return "s:int", false },
	"dir":  func(x *big.Int) (string, bool) { return "[]", false }, // ints have no methods
	"min":  nil, "max": nil,                                        // binary and list forms below
	"chr": func(x *big.Int) (string, bool) {
		if x.Sign() < 0 || x.Cmp(big.NewInt(0x10FFFF)) > 0 {
			return "err", false
		}
		return "s:" + string(rune(x.Int64())), false
	},
}

// list forms f([x, y])
var uniList = map[string]func(x, y *big.Int) string{
	"list":  func(x, y *big.Int) string { return encInts(x, y) },
	"tuple": func(x, y *big.Int) string { return encInts(x, y) },
	"set": func(x, y *big.Int) string {
		if x.Cmp(y) == 0 {
			return encInts(x)
		}
		return encInts(x, y)
	},
	"sorted": func(x, y *big.Int) string {
		if x.Cmp(y) <= 0 {
			return encInts(x, y)
		}
		return encInts(y, x)
	},
	"reversed": func(x, y *big.Int) string { return encInts(y, x) },
	"zip":      func(x, y *big.Int) string { return "[" + encInts(x) + "," + encInts(y) + "]" },
	"len":      func(x, y *big.Int) string { return "2" },
	"any":      func(x, y *big.Int) string { return boolS(x.Sign() != 0 || y.Sign() != 0) },
	"all":      func(x, y *big.Int) string { return boolS(x.Sign() != 0 && y.Sign() != 0) },
	"min": func(x, y *big.Int) string {
		if y.Cmp(x) < 0 {
			return y.String()
		}
		return x.String()
	},
	"max": func(x, y *big.Int) string {
		if y.Cmp(x) > 0 {
			return y.String()
		}
		return x.String()
	},
	"enumerate": func(x, y *big.Int) string { return "[[0," + x.String() + "],[1," + y.String() + "]]" },
	"bytes": func(x, y *big.Int) string {
		if x.Sign() < 0 || y.Sign() < 0 || x.Cmp(big.NewInt(255)) > 0 || y.Cmp(big.NewInt(255)) > 0 {
			return "err"
		}
		return fmt.Sprintf("y:%02x%02x", x.Int64(), y.Int64())
	},
	"str":  func(x, y *big.Int) string { return "s:[" + x.String() + ", " + y.String() + "]" },
	"repr": func(x, y *big.Int) string { return "s:[" + x.String() + ", " + y.String() + "]" },
	"bool": func(x, y *big.Int) string { return "T" },
	"type": func(x, y *big.Int) string { return "s:list" },
}

// list-form built-ins whose result depends only on the elements: also run on other kinds of iterable
var iterForms = map[string]bool{"list": true, "tuple": true, "set": true, "sorted": true, "reversed": true, "zip": true,
	"any": true, "all": true, "min": true, "max": true, "enumerate": true, "bytes": true}

// built-ins that must not be called blindly (output, abort) or that take no numbers at all by design
var uniSkip = map[string]bool{"print": true, "fail": true}

var mathUnary = map[string]func(float64) float64{
	"fabs": math.Abs, "exp": math.Exp, "sqrt": math.Sqrt, "acos": math.Acos, "asin": math.Asin, "atan": math.Atan,
	"cos": math.Cos, "sin": math.Sin, "tan": math.Tan, "acosh": math.Acosh, "asinh": math.Asinh, "atanh": math.Atanh,
	"cosh": math.Cosh, "sinh": math.Sinh, "tanh": math.Tanh, "gamma": math.Gamma,
	"degrees": func(x float64) float64 { return 360 * x / (2 * math.Pi) },
	"radians": func(x float64) float64 { return 2 * math.Pi * x / 360 },
	"log":     func(x float64) float64 { return math.Log(x) / math.Log(math.E) },
}
var mathBinary = map[string]func(a, b float64) float64{
	"copysign": math.Copysign, "mod": math.Mod, "pow": math.Pow, "remainder": math.Remainder, "atan2": math.Atan2, "hypot": math.Hypot,
}

// exact ones handled by conversions(): floor, ceil, round
var mathExact = map[string]bool{"floor": true, "ceil": true, "round": true}

func isCallable(v starlark.Value) bool { _, ok := v.(starlark.Callable); return ok }

// universeCases enumerates the members of starlark.Universe and lib/math.Module and
// runs every one that accepts ints on the boundary pool; a member that accepts ints
// but has no oracle here is reported as "uncovered".
func universeCases(ints []*big.Int, partners []*big.Int) {
	three, two := mkInt(big.NewInt(3)), mkInt(big.NewInt(2))
	for _, name := range sortedKeys(starlark.Universe) {
		fn := starlark.Universe[name]
		if !isCallable(fn) || uniSkip[name] {
			continue
		}
		_, ok1 := callB(fn, three.v)
		_, ok2 := callB(fn, three.v, two.v)
		_, okL := callB(fn, mkList(big.NewInt(3), big.NewInt(2)).v)
		u, hasU := uniUnary[name]
		l, hasL := uniList[name]
		if name == "range" || name == "enumerate" && !okL {
			hasU = true // covered by the range / enumerate groups
		}
		if (ok1 || ok2 || okL) && !hasU && !hasL {
			counts["uncovered"]++
			hx.Emit(Case{K: "uncovered", Op: "universe." + name, A: []string{}, R: "accepts ints", W: "?"})
			continue
		}
		for _, x := range ints {
			if ok1 && u != nil {
				w, e := u(x)
				emitB("builtin", name+"(a0)", w, e, fn, mkInt(x))
			}
			for _, y := range partners {
				if ok2 && (name == "min" || name == "max") {
					emitB("builtin", name+"(a0, a1)", uniList[name](x, y), false, fn, mkInt(x), mkInt(y))
				}
				if okL && hasL {
					w := l(x, y)
					emitB("builtin", name+"([a0, a1])", w, false, fn, mkList(x, y))
					if iterForms[name] {
						// the same elements through a tuple, an Iterable without length and a host Sequence
						vals := []starlark.Value{starlark.MakeBigInt(x), starlark.MakeBigInt(y)}
						lst := "[" + x.String() + "," + y.String() + "]"
						emitB("builtin", name+"(tuple [a0, a1])", w, false, fn, operand{starlark.Tuple(vals), lst})
						emitB("builtin", name+"(hostIter [a0, a1])", w, false, fn, operand{&hostIter{vals}, lst})
						emitB("builtin", name+"(hostSeq [a0, a1])", w, false, fn, operand{&hostSeq{hostIter{vals}}, lst})
					}
				}
			}
		}
	}
	for _, name := range sortedKeys(smath.Module.Members) {
		fn := smath.Module.Members[name]
		if !isCallable(fn) || mathExact[name] {
			continue
		}
		u, hasU := mathUnary[name]
		b, hasB := mathBinary[name]
		_, ok1 := callB(fn, three.v)
		_, ok2 := callB(fn, three.v, two.v)
		if (ok1 || ok2) && !hasU && !hasB {
			counts["uncovered"]++
			hx.Emit(Case{K: "uncovered", Op: "math." + name, A: []string{}, R: "accepts ints", W: "?"})
			continue
		}
		for _, x := range ints {
			xf := nearestOrInf(x)
			if hasU {
				emitB("mathfn", "math."+name+"(a0)", encFloat(u(xf)), false, fn, mkInt(x))
			}
			if name == "log" {
				for _, y := range partners {
					yf := nearestOrInf(y)
					w := "err"
					if yf != 1 {
						w = encFloat(math.Log(xf) / math.Log(yf))
					}
					emitB("mathfn", "math.log(a0, a1)", w, false, fn, mkInt(x), mkInt(y))
				}
			}
			if hasB {
				for _, y := range partners {
					yf := nearestOrInf(y)
					emitB("mathfn", "math."+name+"(a0, a1)", encFloat(b(xf, yf)), false, fn, mkInt(x), mkInt(y))
					emitB("mathfn", "math."+name+"(a0, a1)", encFloat(b(yf, xf)), false, fn, mkInt(y), mkInt(x))
				}
			}
		}
	}
	// ints and floats have no methods; if one appears it needs an oracle
	for _, v := range []operand{three, mkFloat(1.5)} {
		r, _ := callB(starlark.Universe["dir"], v.v)
		if r != "[]" {
			counts["uncovered"]++
			hx.Emit(Case{K: "uncovered", Op: "methods of " + v.v.Type(), A: []string{}, R: r, W: "?"})
		}
	}
}

func sortedKeys(d starlark.StringDict) []string {
	ks := d.Keys()
	sort.Strings(ks)
	return ks
}

// ---------------------------------------------------------------- oracles (math/big only)

func floorDivMod(x, y *big.Int) (*big.Int, *big.Int) {
	// Euclidean division from math/big, then moved to floor semantics by hand.
	q, m := new(big.Int).DivMod(x, y, new(big.Int)) // 0 <= m < |y|
	if y.Sign() < 0 && m.Sign() != 0 {
		// Euclid: x = q*y + m with m > 0, y < 0  ->  floor: remainder m + y (negative), quotient q - 1
		q.Sub(q, big.NewInt(1))
		m.Add(m, y)
	}
	return q, m
}

func oracleBin(op string, x, y *big.Int) string {
	z := new(big.Int)
	switch op {
	case "+":
		return z.Add(x, y).String()
	case "-":
		return z.Sub(x, y).String()
	case "*":
		return z.Mul(x, y).String()
	case "//":
		if y.Sign() == 0 {
			return "err"
		}
		q, _ := floorDivMod(x, y)
		return q.String()
	case "%":
		if y.Sign() == 0 {
			return "err"
		}
		_, m := floorDivMod(x, y)
		return m.String()
	case "&", "|", "^":
		return bitwise(op, x, y).String()
	case "<<":
		if y.Sign() < 0 || y.Cmp(big.NewInt(512)) >= 0 {
			return "err"
		}
		return z.Mul(x, pow2(uint(y.Int64()))).String()
	case ">>":
		if y.Sign() < 0 || y.Cmp(big.NewInt(math.MaxInt32)) > 0 {
			return "err"
		}
		n := uint(y.Int64())
		if n > 4096 {
			if x.Sign() < 0 {
				return "-1"
			}
			return "0"
		}
		q, _ := floorDivMod(x, pow2(n))
		return q.String()
	}
	panic(op)
}

// bitwise computes two's-complement and/or/xor digit by digit on a width that
// holds both operands, independently of big.Int.And/Or/Xor.
func bitwise(op string, x, y *big.Int) *big.Int {
	w := uint(x.BitLen())
	if uint(y.BitLen()) > w {
		w = uint(y.BitLen())
	}
	w += 2
	mod := pow2(w)
	ux := new(big.Int).Mod(x, mod) // two's complement image in [0, 2^w)
	uy := new(big.Int).Mod(y, mod)
	r := new(big.Int)
	for i := int(w) - 1; i >= 0; i-- {
		a, b := ux.Bit(i), uy.Bit(i)
		var c uint
		switch op {
		case "&":
			c = a & b
		case "|":
			c = a | b
		case "^":
			c = a ^ b
		}
		r.Lsh(r, 1)
		if c == 1 {
			r.Add(r, big.NewInt(1))
		}
	}
	if r.Bit(int(w)-1) == 1 { // negative
		r.Sub(r, mod)
	}
	return r
}

func boolS(b bool) string {
	if b {
		return "T"
	}
	return "F"
}

func cmpOp(op string, c int) string {
	switch op {
	case "==":
		return boolS(c == 0)
	case "!=":
		return boolS(c != 0)
	case "<":
		return boolS(c < 0)
	case "<=":
		return boolS(c <= 0)
	case ">":
		return boolS(c > 0)
	case ">=":
		return boolS(c >= 0)
	}
	panic(op)
}

// exact comparison of an integer with a float; NaN is above everything (documented total order)
func cmpIntFloat(x *big.Int, f float64) int {
	switch {
	case math.IsNaN(f):
		return -1
	case math.IsInf(f, 1):
		return -1
	case math.IsInf(f, -1):
		return 1
	}
	// f = mant * 2^exp exactly
	mant, exp := math.Frexp(f) // f = mant * 2^exp, 0.5 <= |mant| < 1
	m := int64(mant * (1 << 53))
	e := exp - 53
	fm := big.NewInt(m)
	xx := new(big.Int).Set(x)
	if e >= 0 {
		fm.Lsh(fm, uint(e))
	} else {
		xx.Lsh(xx, uint(-e))
	}
	return xx.Cmp(fm)
}

// nearest-even float of an integer, by hand on the bits (independent of big.Float)
func intToFloat(x *big.Int) (float64, bool) {
	if x.Sign() == 0 {
		return 0, true
	}
	a := new(big.Int).Abs(x)
	n := a.BitLen()
	var f float64
	if n <= 53 {
		f = float64(a.Uint64())
	} else {
		shift := uint(n - 53)
		q := new(big.Int).Rsh(a, shift)
		rem := new(big.Int).Sub(a, new(big.Int).Lsh(q, shift))
		half := pow2(shift - 1)
		c := rem.Cmp(half)
		if c > 0 || (c == 0 && q.Bit(0) == 1) {
			q.Add(q, big.NewInt(1))
		}
		if n-53 > 1100 {
			return math.Inf(x.Sign()), false
		}
		f = math.Ldexp(float64(q.Uint64()), n-53)
	}
	if x.Sign() < 0 {
		f = -f
	}
	return f, !math.IsInf(f, 0)
}

// truncation of a finite float towards zero, exactly
func floatTrunc(f float64) *big.Int {
	mant, exp := math.Frexp(f)
	m := int64(mant * (1 << 53))
	e := exp - 53
	z := big.NewInt(m)
	if e >= 0 {
		return z.Lsh(z, uint(e))
	}
	if -e > 2000 {
		return big.NewInt(0)
	}
	return z.Quo(z, pow2(uint(-e))) // Quo truncates
}

func floatIsInt(f float64) bool { return !math.IsInf(f, 0) && !math.IsNaN(f) && f == math.Trunc(f) }

// ---------------------------------------------------------------- pools

func intPool(small bool) []*big.Int {
	var p []*big.Int
	addpm := func(z *big.Int) {
		for _, d := range []int64{-1, 0, 1} {
			p = append(p, add(z, d), neg(add(z, d)))
		}
	}
	for _, v := range []int64{0, 1, 2, 3, 7, 10} {
		p = append(p, big.NewInt(v), big.NewInt(-v))
	}
	exps := []uint{31, 32, 53, 63, 64}
	for _, e := range exps {
		addpm(pow2(e))
	}
	if !small {
		for _, v := range []int64{5, 31, 32, 33, 63, 64, 65, 100, 255, 511, 512, 513, 1000, 46341, 46340, 65536, 3037000499, 3037000500} {
			p = append(p, big.NewInt(v), big.NewInt(-v))
		}
		addpm(pow2(62))
		addpm(pow2(30))
		addpm(pow2(128))
		addpm(pow2(200))
	}
	// dedupe
	seen := map[string]bool{}
	var q []*big.Int
	for _, z := range p {
		if !seen[z.String()] {
			seen[z.String()] = true
			q = append(q, z)
		}
	}
	return q
}

func randInt(r *hx.Rand, maxbits int) *big.Int {
	n := r.Intn(maxbits + 1)
	z := new(big.Int)
	for i := 0; i < n; i += 64 {
		z.Lsh(z, 64)
		z.Add(z, new(big.Int).SetUint64(r.Uint64()))
	}
	if n > 0 {
		z.Rsh(z, uint((64-n%64)%64))
	}
	switch r.Intn(6) {
	case 0: // near a power of two
		z = add(pow2(uint(n)), int64(r.Intn(5)-2))
	case 1:
		z = big.NewInt(int64(r.Intn(200) - 100))
	}
	if r.Bool() {
		z.Neg(z)
	}
	return z
}

func floatPool(small bool) []float64 {
	if small {
		return []float64{0, math.Copysign(0, -1), math.SmallestNonzeroFloat64, -math.Float64frombits(0x000fffffffffffff), 0.5, -1.5, 2.5, 0.1, -3.7, 1, -2,
			1e300, -math.MaxFloat64, math.Inf(1), math.Inf(-1), math.NaN(), 4503599627370496.5, 2147483648, -2147483649, 4294967296.5,
			9007199254740992, 9007199254740994, -9007199254740992, 9223372036854775808, math.Nextafter(9223372036854775808, 0), -9223372036854775808,
			math.Nextafter(-9223372036854775808, math.Inf(-1)), 18446744073709551616, math.Nextafter(1, 2), 1e22}
	}
	p := []float64{0, math.Copysign(0, -1), math.SmallestNonzeroFloat64, -math.SmallestNonzeroFloat64,
		math.Float64frombits(0x000fffffffffffff), math.Float64frombits(0x0010000000000000),
		0.5, -0.5, 1.5, -1.5, 2.5, -2.5, 0.1, -3.7, 1, -1, 2, 3, 1e300, -1e300, math.MaxFloat64, -math.MaxFloat64,
		math.Inf(1), math.Inf(-1), math.NaN(), 4503599627370496.5, -4503599627370495.5, 1e22, 123456789.0}
	for _, e := range []int{31, 32, 53, 63, 64} {
		f := math.Ldexp(1, e)
		for _, g := range []float64{f, math.Nextafter(f, 0), math.Nextafter(f, math.Inf(1)), f - 1, f + 1, f - 0.5, f + 0.5} {
			p = append(p, g, -g)
		}
	}
	for _, f := range []float64{1, 2, 3, 100} {
		p = append(p, math.Nextafter(f, 0), math.Nextafter(f, 1000), -math.Nextafter(f, 0), -math.Nextafter(f, 1000))
	}
	seen := map[uint64]bool{}
	var q []float64
	for _, f := range p {
		if b := math.Float64bits(f); !seen[b] {
			seen[b] = true
			q = append(q, f)
		}
	}
	return q
}

func randFloat(r *hx.Rand) float64 {
	switch r.Intn(5) {
	case 0:
		return math.Float64frombits(r.Uint64()) // anything, incl. NaN/inf/subnormal
	case 1: // integer-valued or half
		z := randInt(r, 70)
		f, _ := new(big.Float).SetInt(z).Float64()
		if r.Bool() {
			f += 0.5
		}
		return f
	case 2: // adjacent to an integer
		z := randInt(r, 60)
		f, _ := new(big.Float).SetInt(z).Float64()
		if r.Bool() {
			return math.Nextafter(f, math.Inf(1))
		}
		return math.Nextafter(f, math.Inf(-1))
	case 3:
		return math.Ldexp(float64(r.Intn(1<<20))-float64(1<<19), r.Intn(80)-20)
	}
	return (float64(r.Intn(2000)) - 1000) / 8
}

// ---------------------------------------------------------------- groups of cases

var binOps = []string{"+", "-", "*", "//", "%", "&", "|", "^", "<<", ">>"}
var cmpOps = []string{"==", "!=", "<", "<=", ">", ">="}
var arithOps = []string{"+", "-", "*", "/", "//", "%"}

func tBin(op string) string { return "a0 " + op + " a1" }

func intBinary(x, y *big.Int) {
	for _, op := range binOps {
		emit("bin", tBin(op), oracleBin(op, x, y), false, mkInt(x), mkInt(y))
	}
}

func intCompare(x, y *big.Int) {
	c := x.Cmp(y)
	for _, op := range cmpOps {
		emit("cmp", tBin(op), cmpOp(op, c), false, mkInt(x), mkInt(y))
	}
}

func intUnary(x *big.Int) {
	emit("un", "-a0", neg(x).String(), false, mkInt(x))
	emit("un", "+a0", x.String(), false, mkInt(x))
	emit("un", "~a0", add(neg(x), -1).String(), false, mkInt(x))
}

func intFloatCompare(x *big.Int, f float64) {
	c := cmpIntFloat(x, f)
	for _, op := range cmpOps {
		emit("cmpif", tBin(op), cmpOp(op, c), false, mkInt(x), mkFloat(f))
		emit("cmpfi", tBin(op), cmpOp(op, -c), false, mkFloat(f), mkInt(x))
	}
}

// compareNeighbourhoods: for each band 2^b <= |n| < 2^(b+1), b = 31..52 (where n +- a
// fraction is representable), both signs: n against n -+ 0.5, n -+ 0.25, the adjacent
// floats in both directions and n itself as a float.  For b >= 53: the float nearest
// to n, its two neighbours, and the ints equal / adjacent to each of those floats.
func compareNeighbourhoods(rd *hx.Rand) {
	one := big.NewInt(1)
	for b := uint(31); b <= 52; b++ {
		lo := pow2(b)
		for _, n := range []*big.Int{lo, add(lo, 1), new(big.Int).Add(lo, new(big.Int).Rsh(new(big.Int).SetUint64(rd.Uint64()), 64-b)), add(pow2(b+1), -1)} {
			for _, x := range []*big.Int{n, neg(n)} {
				f := float64(x.Int64()) // exact: |x| < 2^53
				fs := []float64{f, f - 0.5, f + 0.5, math.Nextafter(f, math.Inf(-1)), math.Nextafter(f, math.Inf(1))}
				if b <= 50 {
					fs = append(fs, f-0.25, f+0.25)
				}
				for _, g := range fs {
					intFloatCompare(x, g)
				}
			}
		}
	}
	for _, b := range []uint{53, 54, 55, 62, 63, 64, 65, 80, 100, 128, 199, 1000, 1022} {
		for k := 0; k < 2; k++ {
			n := new(big.Int).Abs(randInt(rd, 200))
			if k == 0 {
				n = add(pow2(b), int64(rd.Intn(5)-2))
			} else {
				n.Mod(n, pow2(b)).Add(n, pow2(b))
			}
			for _, x := range []*big.Int{n, neg(n)} {
				f, ok := intToFloat(x)
				if !ok {
					continue
				}
				for _, g := range []float64{f, math.Nextafter(f, math.Inf(-1)), math.Nextafter(f, math.Inf(1))} {
					gi := floatTrunc(g) // g is integral here
					for _, y := range []*big.Int{x, gi, new(big.Int).Sub(gi, one), new(big.Int).Add(gi, one)} {
						intFloatCompare(y, g)
					}
				}
			}
		}
	}
}

func flOp(op string, a, b float64) string {
	switch op {
	case "+":
		return encFloat(a + b)
	case "-":
		return encFloat(a - b)
	case "*":
		return encFloat(a * b)
	case "/":
		if b == 0 {
			return "err"
		}
		return encFloat(a / b)
	case "//":
		if b == 0 {
			return "err"
		}
		return encFloat(math.Floor(a / b))
	case "%":
		if b == 0 {
			return "err"
		}
		return "?" // sign rule checked by the Python side (result has the divisor's sign, |r| <= |b|)
	}
	panic(op)
}

func mixedArith(x *big.Int, f float64) {
	xf, finite := intToFloat(x)
	for _, op := range arithOps {
		w1, w2 := "err", "err"
		if finite {
			w1, w2 = flOp(op, xf, f), flOp(op, f, xf)
		}
		emit("mixif", tBin(op), w1, false, mkInt(x), mkFloat(f))
		emit("mixfi", tBin(op), w2, false, mkFloat(f), mkInt(x))
	}
}

func intTrueDiv(x, y *big.Int) {
	xf, fx := intToFloat(x)
	yf, fy := intToFloat(y)
	w := "err"
	if fx && fy && yf != 0 {
		w = encFloat(xf / yf)
	}
	emit("truediv", "a0 / a1", w, false, mkInt(x), mkInt(y))
}

func conversions(x *big.Int) {
	f, finite := intToFloat(x)
	w := "err"
	if finite {
		w = encFloat(f)
	}
	emit("float_of_int", "float(a0)", w, false, mkInt(x))
	emit("int_of_int", "int(a0)", x.String(), false, mkInt(x))
	emit("floor_int", "math.floor(a0)", x.String(), false, mkInt(x))
	emit("ceil_int", "math.ceil(a0)", x.String(), false, mkInt(x))
	// math.round returns a float: it is exact only when the int is representable
	wr := "err"
	if finite && cmpIntFloat(x, f) == 0 {
		wr = encFloat(f)
	}
	emit("round_int", "math.round(a0)", wr, true, mkInt(x))
	emit("str", "str(a0)", "s:"+x.Text(10), false, mkInt(x))
	emit("fmt", "'%d' % a0", "s:"+x.Text(10), false, mkInt(x))
	emit("fmt", "'%x' % a0", "s:"+x.Text(16), false, mkInt(x))
	emit("fmt", "'%X' % a0", "s:"+strings.ToUpper(x.Text(16)), false, mkInt(x))
	emit("fmt", "'%o' % a0", "s:"+x.Text(8), false, mkInt(x))
	emit("roundtrip", "int(str(a0))", x.String(), false, mkInt(x))
	emit("roundtrip", "int('%x' % a0, 16)", x.String(), false, mkInt(x))
	emit("bool", "bool(a0)", boolS(x.Sign() != 0), false, mkInt(x))
}

func floatConversions(f float64) {
	fin := !math.IsInf(f, 0) && !math.IsNaN(f)
	w, wf, wc, wr := "err", "err", "err", "?"
	if fin {
		w = floatTrunc(f).String()
		wf = floatTrunc(math.Floor(f)).String()
		wc = floatTrunc(math.Ceil(f)).String()
	}
	// round half away from zero, as a float
	if fin {
		t := math.Trunc(f)
		if math.Abs(f-t) >= 0.5 {
			t += math.Copysign(1, f)
		}
		wr = encFloat(t)
	} else {
		wr = encFloat(f)
	}
	emit("int_of_float", "int(a0)", w, false, mkFloat(f))
	emit("floor_float", "math.floor(a0)", wf, false, mkFloat(f))
	emit("ceil_float", "math.ceil(a0)", wc, false, mkFloat(f))
	emit("round_float", "math.round(a0)", wr, false, mkFloat(f))
	emit("fmt_float", "'%d' % a0", map[bool]string{true: "s:" + w, false: "err"}[fin], false, mkFloat(f))
	emit("float_of_float", "float(a0)", encFloat(f), false, mkFloat(f))
}

// ---- text: int(s, base)

const digits = "0123456789abcdefghijklmnopqrstuvwxyz"

// reference parser written from doc/spec.md (int): optional sign, optional base
// prefix matching the base (or base 0), digits of the base; base 0 = literal syntax.
func refParse(s string, base int, hasBase bool) string {
	if !hasBase {
		base = 10
	}
	if base != 0 && (base < 2 || base > 36) {
		return "err"
	}
	neg := false
	if s != "" && (s[0] == '+' || s[0] == '-') {
		neg = s[0] == '-'
		s = s[1:]
	}
	pre := 0
	if len(s) >= 2 && s[0] == '0' {
		switch s[1] {
		case 'x', 'X':
			pre = 16
		case 'o', 'O':
			pre = 8
		case 'b', 'B':
			pre = 2
		}
	}
	if base == 0 {
		if pre != 0 {
			base = pre
			s = s[2:]
		} else {
			base = 10
			if len(s) > 1 && s[0] == '0' {
				// only zeros allowed after a leading zero
				for _, c := range s {
					if c != '0' {
						return "err"
					}
				}
			}
		}
	} else if pre == base && len(s) > 2 {
		s = s[2:]
	}
	if s == "" {
		return "err"
	}
	z := new(big.Int)
	b := big.NewInt(int64(base))
	for _, c := range strings.ToLower(s) {
		d := strings.IndexRune(digits, c)
		if d < 0 || d >= base {
			return "err"
		}
		z.Mul(z, b)
		z.Add(z, big.NewInt(int64(d)))
	}
	if neg {
		z.Neg(z)
	}
	return z.String()
}

func parseCase(s string, base int, hasBase bool) {
	w := refParse(s, base, hasBase)
	if hasBase {
		emit("parse", "int(a0, a1)", w, false, mkStr(s), mkInt(big.NewInt(int64(base))))
	} else {
		emit("parse", "int(a0)", w, false, mkStr(s))
	}
}

func textCases(r *hx.Rand, x *big.Int) {
	for _, b := range []int{2, 3, 7, 8, 10, 16, 29, 36} {
		s := x.Text(b)
		parseCase(s, b, true)
		if r.Bool() {
			parseCase(strings.ToUpper(s), b, true)
		}
	}
	abs := new(big.Int).Abs(x)
	sign := ""
	if x.Sign() < 0 {
		sign = "-"
	}
	for _, p := range []struct {
		pre  string
		base int
	}{{"0x", 16}, {"0X", 16}, {"0o", 8}, {"0O", 8}, {"0b", 2}, {"0B", 2}} {
		lit := sign + p.pre + abs.Text(p.base)
		parseCase(lit, 0, true)
		parseCase(lit, p.base, true)
		parseCase(lit, 10, true)
		parseCase(lit, 36, true)
		parseCase(lit, 0, false)
	}
	parseCase(sign+abs.Text(10), 0, true)
	parseCase("+"+abs.Text(10), 10, false)
	parseCase("0"+abs.Text(10), 0, true)
	parseCase("0"+abs.Text(10), 10, true)
	// corrupted literals
	s := x.Text(10)
	muts := []string{"", "-", "+", "--" + s, "+-" + s, s + " ", " " + s, s + "_", "0x", "0b", "0o", "-0x", "0x-" + s, s + "g", "1_000", "0b2", "0o8", "0xg", "1e3", "1.0", "²", "٣"}
	for i := 0; i < 3; i++ {
		m := hx.Pick(r, muts)
		b := hx.Pick(r, []int{0, 2, 8, 10, 16, 36})
		parseCase(m, b, true)
		parseCase(m, 0, false)
	}
	for _, b := range []int{-1, 1, 37, 1 << 20} {
		if r.Intn(4) == 0 {
			parseCase(s, b, true)
		}
	}
}

// ---- range, enumerate

var i64min = neg(pow2(63))
var i64max = add(pow2(63), -1)

func inI64(z *big.Int) bool { return z.Cmp(i64min) >= 0 && z.Cmp(i64max) <= 0 }
func inI32(z *big.Int) bool {
	return z.Cmp(big.NewInt(math.MinInt32)) >= 0 && z.Cmp(big.NewInt(math.MaxInt32)) <= 0
}

// mathematical length of range(start, stop, step), step != 0
func seqLen(start, stop, step *big.Int) *big.Int {
	n := new(big.Int)
	if step.Sign() > 0 && stop.Cmp(start) > 0 {
		d := new(big.Int).Sub(stop, start)
		d.Sub(d, big.NewInt(1))
		n.Quo(d, step)
		n.Add(n, big.NewInt(1))
	} else if step.Sign() < 0 && start.Cmp(stop) > 0 {
		d := new(big.Int).Sub(start, stop)
		d.Sub(d, big.NewInt(1))
		n.Quo(d, neg(step))
		n.Add(n, big.NewInt(1))
	}
	return n
}

func seqAt(start, step, i *big.Int) *big.Int {
	z := new(big.Int).Mul(i, step)
	return z.Add(z, start)
}

func seqHas(start, stop, step, x *big.Int) bool {
	n := seqLen(start, stop, step)
	d := new(big.Int).Sub(x, start)
	q, m := floorDivMod(d, step)
	return m.Sign() == 0 && q.Sign() >= 0 && q.Cmp(n) < 0
}

type rng struct{ a, b, c *big.Int }

// the range as source operands; failing is allowed when an argument or the length is not a machine int
func (r rng) ok() bool {
	return inI64(r.a) && inI64(r.b) && inI64(r.c) && r.c.Sign() != 0 && inI64(seqLen(r.a, r.b, r.c))
}
func (r rng) mustFail() bool { return r.c.Sign() == 0 }
func (r rng) ops() []operand { return []operand{mkInt(r.a), mkInt(r.b), mkInt(r.c)} }

func rangeCases(rd *hx.Rand, r rng, probesInt []*big.Int, probesFloat []float64) {
	ops := r.ops()
	if r.mustFail() {
		emit("rng_len", "len(range(a0, a1, a2))", "err", false, ops...)
		return
	}
	n := seqLen(r.a, r.b, r.c)
	may := !r.ok()
	obsLen := emit("rng_len", "len(range(a0, a1, a2))", n.String(), may, ops...)
	emit("rng_bool", "bool(range(a0, a1, a2))", boolS(n.Sign() > 0), may, ops...)
	// indexing
	idx := []*big.Int{big.NewInt(0), big.NewInt(1), big.NewInt(-1), big.NewInt(-2), add(n, -1), n, neg(n), add(neg(n), -1), big.NewInt(int64(rd.Intn(100)))}
	for _, i := range idx {
		j := new(big.Int).Set(i)
		if j.Sign() < 0 {
			j.Add(j, n)
		}
		w := "err"
		if j.Sign() >= 0 && j.Cmp(n) < 0 {
			w = seqAt(r.a, r.c, j).String()
		}
		emit("rng_idx", "range(a0, a1, a2)[a3]", w, may || !inI32(i), append(ops, mkInt(i))...)
	}
	// membership
	for _, x := range probesInt {
		emit("rng_in", "a3 in range(a0, a1, a2)", boolS(seqHas(r.a, r.b, r.c, x)), may, append(ops, mkInt(x))...)
	}
	for _, f := range probesFloat {
		w := "err"
		if floatIsInt(f) {
			w = boolS(seqHas(r.a, r.b, r.c, floatTrunc(f)))
		} else if !math.IsInf(f, 0) && !math.IsNaN(f) {
			w = "F"
		}
		// a non-number-like float (inf, NaN) may be rejected or answered False
		emit("rng_inf", "a3 in range(a0, a1, a2)", w, may, append(ops, mkFloat(f))...)
	}
	// whole sequence when short
	if n.Cmp(big.NewInt(40)) <= 0 && smallLen(obsLen) {
		parts := []string{}
		for i := int64(0); i < n.Int64(); i++ {
			parts = append(parts, seqAt(r.a, r.c, big.NewInt(i)).String())
		}
		lst := "[" + strings.Join(parts, ",") + "]"
		emit("rng_list", "list(range(a0, a1, a2))", lst, may, ops...)
		emit("rng_iter", "[x for x in range(a0, a1, a2)]", lst, may, ops...)
		rev := make([]string, len(parts))
		for i := range parts {
			rev[len(parts)-1-i] = parts[i]
		}
		emit("rng_rev", "list(reversed(range(a0, a1, a2)))", "["+strings.Join(rev, ",")+"]", may, ops...)
	} else {
		w := "[" + seqAt(r.a, r.c, big.NewInt(0)).String() + "," + seqAt(r.a, r.c, big.NewInt(1)).String() + "," + seqAt(r.a, r.c, add(n, -1)).String() + "]"
		emit("rng_ends", "[range(a0, a1, a2)[0], range(a0, a1, a2)[1], range(a0, a1, a2)[-1]]", w, may, ops...)
	}
}

// Python slice semantics on a sequence of length n: returns (first index, step, count)
func sliceIdx(n int64, lo, hi, st *int64) (int64, int64, int64) {
	step := int64(1)
	if st != nil {
		step = *st
	}
	var start, stop int64
	if step > 0 {
		start, stop = 0, n
		if lo != nil {
			start = *lo
			if start < 0 {
				start += n
				if start < 0 {
					start = 0
				}
			} else if start > n {
				start = n
			}
		}
		if hi != nil {
			stop = *hi
			if stop < 0 {
				stop += n
				if stop < 0 {
					stop = 0
				}
			} else if stop > n {
				stop = n
			}
		}
		cnt := int64(0)
		if stop > start {
			cnt = (stop-start-1)/step + 1
		}
		return start, step, cnt
	}
	start, stop = n-1, -1
	if lo != nil {
		start = *lo
		if start < 0 {
			start += n
			if start < 0 {
				start = -1
			}
		} else if start >= n {
			start = n - 1
		}
	}
	if hi != nil {
		stop = *hi
		if stop < 0 {
			stop += n
			if stop < 0 {
				stop = -1
			}
		} else if stop >= n {
			stop = n - 1
		}
	}
	cnt := int64(0)
	if start > stop {
		cnt = (start-stop-1)/(-step) + 1
	}
	return start, step, cnt
}

func optInt(p *int64) operand {
	if p == nil {
		return mkNone()
	}
	return mkInt(big.NewInt(*p))
}

func sliceCases(rd *hx.Rand, r rng) {
	if !r.ok() {
		return
	}
	n := seqLen(r.a, r.b, r.c)
	if !inI32(n) {
		return // slice indices are limited to 32 bits; huge ranges are indexed through rng_idx only
	}
	nn := n.Int64()
	pick := func() *int64 {
		switch rd.Intn(6) {
		case 0:
			return nil
		case 1:
			v := int64(rd.Intn(int(nn)+3)) - 1
			return &v
		case 2:
			v := -int64(rd.Intn(int(nn) + 3))
			return &v
		case 3:
			v := nn
			return &v
		case 4:
			v := int64(0)
			return &v
		}
		if rd.Intn(8) == 0 { // operands beyond 32 bits are truncated to the bounds
			v := hx.Pick(rd, []int64{math.MaxInt32 + 1, math.MinInt32 - 1, 1 << 40, -(1 << 40), math.MaxInt64, math.MinInt64})
			return &v
		}
		v := int64(rd.Intn(7) - 3)
		return &v
	}
	for k := 0; k < 6; k++ {
		lo, hi, st := pick(), pick(), pick()
		if st != nil && *st == 0 {
			st = nil
		}
		if k == 0 {
			v := int64(math.MaxInt32)
			st = &v
		}
		if k == 1 {
			v := int64(math.MinInt32)
			st = &v
		}
		if st != nil && *st == math.MinInt64 {
			v := int64(math.MinInt64 + 1) // keep -step representable in the oracle below
			st = &v
		}
		first, step, cnt := sliceIdx(nn, lo, hi, st)
		parts := []string{}
		if cnt <= 40 {
			for i := int64(0); i < cnt; i++ {
				parts = append(parts, seqAt(r.a, r.c, big.NewInt(first+i*step)).String())
			}
			ops := append(r.ops(), optInt(lo), optInt(hi), optInt(st))
			lst := "[" + strings.Join(parts, ",") + "]"
			if ol := emit("rng_slice_len", "len(range(a0, a1, a2)[a3:a4:a5])", fmt.Sprint(cnt), false, ops...); smallLen(ol) {
				emit("rng_slice", "list(range(a0, a1, a2)[a3:a4:a5])", lst, false, ops...)
			}
			if cnt > 0 {
				x := seqAt(r.a, r.c, big.NewInt(first+(cnt-1)*step))
				emit("rng_slice_in", "a3 in range(a0, a1, a2)[a4:a5:a6]", "T", false, append(r.ops(), mkInt(x), optInt(lo), optInt(hi), optInt(st))...)
				y := add(x, 1)
				in := false
				for i := int64(0); i < cnt; i++ {
					if seqAt(r.a, r.c, big.NewInt(first+i*step)).Cmp(y) == 0 {
						in = true
					}
				}
				emit("rng_slice_in", "a3 in range(a0, a1, a2)[a4:a5:a6]", boolS(in), false, append(r.ops(), mkInt(y), optInt(lo), optInt(hi), optInt(st))...)
			}
		}
	}
}

func rangeEq(r1, r2 rng) {
	if r1.mustFail() || r2.mustFail() {
		return
	}
	n1, n2 := seqLen(r1.a, r1.b, r1.c), seqLen(r2.a, r2.b, r2.c)
	eq := n1.Cmp(n2) == 0
	if eq && n1.Sign() > 0 {
		eq = r1.a.Cmp(r2.a) == 0 && (n1.Cmp(big.NewInt(1)) == 0 || r1.c.Cmp(r2.c) == 0)
	}
	may := !r1.ok() || !r2.ok()
	emit("rng_eq", "range(a0, a1, a2) == range(a3, a4, a5)", boolS(eq), may, append(r1.ops(), r2.ops()...)...)
	emit("rng_eq", "range(a0, a1, a2) != range(a3, a4, a5)", boolS(!eq), may, append(r1.ops(), r2.ops()...)...)
}

func enumerateCase(start *big.Int, n int) {
	parts := []string{}
	ok := true
	for i := 0; i < n; i++ {
		v := add(start, int64(i))
		parts = append(parts, v.String())
	}
	if !inI64(start) {
		ok = false
	}
	t := fmt.Sprintf("[p[0] for p in enumerate(%s, a0)]", map[int]string{0: "[]", 1: "['a']", 2: "['a', 'b']", 3: "('a', 'b', 'c')", 4: "{'a': 1, 'b': 2, 'c': 3, 'd': 4}"}[n])
	emit("enum", t, "["+strings.Join(parts, ",")+"]", !ok, mkInt(start))
}

// ---- iterables of every kind: built-ins that walk an iterable have separate code
// paths for sequences of known length and for iterables without one

// hostIter is an application-defined Iterable that is not a Sequence (no Len).
type hostIter struct{ elems []starlark.Value }

func (h *hostIter) String() string        { return "hostIter" }
func (h *hostIter) Type() string          { return "hostIter" }
func (h *hostIter) Freeze()               {}
func (h *hostIter) Truth() starlark.Bool  { return true }
func (h *hostIter) Hash() (uint32, error) { return 0, fmt.Errorf("unhashable") }
func (h *hostIter) Iterate() starlark.Iterator {
	return &hostIterator{h.elems, 0}
}

type hostIterator struct {
	elems []starlark.Value
	i     int
}

func (it *hostIterator) Next(p *starlark.Value) bool {
	if it.i < len(it.elems) {
		*p = it.elems[it.i]
		it.i++
		return true
	}
	return false
}
func (it *hostIterator) Done() {}

// hostSeq is an application-defined Sequence (known length).
type hostSeq struct{ hostIter }

func (h *hostSeq) Type() string { return "hostSeq" }
func (h *hostSeq) Len() int     { return len(h.elems) }

func evalValue(src string) starlark.Value {
	v, err := starlark.EvalOptions(&syntax.FileOptions{Set: true}, thread, "it.star", src, starlark.StringDict{"set": starlark.Universe["set"]})
	if err != nil {
		fmt.Fprintln(os.Stderr, "iterable source:", src, err)
		os.Exit(2)
	}
	return v
}

// three-element iterables of every kind reachable from the language and the Go API
func iterables3() []struct {
	name string
	v    starlark.Value
} {
	abc := []starlark.Value{starlark.String("a"), starlark.String("b"), starlark.String("c")}
	return []struct {
		name string
		v    starlark.Value
	}{
		{"list", evalValue("['a', 'b', 'c']")},
		{"tuple", evalValue("('a', 'b', 'c')")},
		{"dict", evalValue("{'a': 1, 'b': 2, 'c': 3}")},
		{"set", evalValue("set(['a', 'b', 'c'])")},
		{"range", evalValue("range(3)")},
		{"str.elems", evalValue("'abc'.elems()")},
		{"str.elem_ords", evalValue("'abc'.elem_ords()")},
		{"str.codepoints", evalValue("'abc'.codepoints()")},
		{"str.codepoint_ords", evalValue("'abc'.codepoint_ords()")},
		{"bytes.elems", evalValue("b'abc'.elems()")},
		{"hostIter", &hostIter{abc}},
		{"hostSeq", &hostSeq{hostIter{abc}}},
	}
}

// enumerate(iterable, start) for every kind of iterable: the indices are start, start+1, start+2
func enumerateKinds(start *big.Int) {
	fn := starlark.Universe["enumerate"]
	for _, it := range iterables3() {
		op := "enumerate(" + it.name + ":3, a0)"
		if trace {
			hx.Emit(Case{K: "pre", Op: op, A: []string{start.String()}, R: "enum"})
			hx.Flush()
		}
		r := func() (res string) {
			defer func() {
				if e := recover(); e != nil {
					res = "panic:" + fmt.Sprint(e)
				}
			}()
			v, err := starlark.Call(thread, fn, starlark.Tuple{it.v, starlark.MakeBigInt(start)}, nil)
			if err != nil {
				return "err"
			}
			l, ok := v.(*starlark.List)
			if !ok {
				return "other:" + v.Type()
			}
			parts := []string{}
			for i := 0; i < l.Len(); i++ {
				parts = append(parts, encValue(l.Index(i).(starlark.Tuple)[0]))
			}
			return "[" + strings.Join(parts, ",") + "]"
		}()
		counts["enum"]++
		hx.Emit(Case{K: "enum", Op: op, A: []string{start.String()}, R: r, W: encInts(start, add(start, 1), add(start, 2)), E: !inI64(start)})
	}
}

func repeatCases(n *big.Int) {
	// len(s * n): exact or fails; never a wrong length
	w := "0"
	if n.Sign() > 0 {
		w = new(big.Int).Mul(n, big.NewInt(3)).String()
	}
	big_ := n.Cmp(big.NewInt(1<<20)) > 0
	if !big_ {
		// negative counts of any magnitude behave like zero
		emit("repeat", "len('abc' * a0)", w, false, mkInt(n))
		emit("repeat", "len(a0 * [1, 2, 3])", w, false, mkInt(n))
		emit("repeat", "len((1, 2, 3) * a0)", w, false, mkInt(n))
	} else {
		emit("repeat_big", "len('abc' * a0)", "err", false, mkInt(n))
		emit("repeat_big", "len(a0 * [1, 2, 3])", "err", false, mkInt(n))
		emit("repeat_big", "len(b'abc' * a0)", "err", false, mkInt(n))
	}
	emit("repeat", "len('' * a0)", "0", false, mkInt(n))
	emit("repeat", "len([] * a0)", "0", false, mkInt(n))
}

// ----------------------------------------------------------------

func main() {
	seed := flag.Uint64("seed", 1, "")
	nrand := flag.Int("n", 2000, "number of random operand tuples per group")
	rep := flag.String("rep", "posix", "posix (address-space optimised / union) or fallback (smallints = 0)")
	small := flag.Bool("small", false, "reduced boundary pools (quick tier)")
	flag.BoolVar(&trace, "trace", false, "announce each case before evaluating it (used after a crash)")
	flag.Parse()
	if *rep == "fallback" {
		if !starlark.VerifDisableSmallInts() {
			fmt.Fprintln(os.Stderr, "fallback representation not available on this platform")
			os.Exit(3)
		}
	}
	rd := hx.NewRand(*seed)

	templates := []string{}
	for _, op := range append(append([]string{}, binOps...), append(cmpOps, "/")...) {
		templates = append(templates, tBin(op))
	}
	templates = append(templates, "-a0", "+a0", "~a0", "float(a0)", "int(a0)", "math.floor(a0)", "math.ceil(a0)", "math.round(a0)",
		"str(a0)", "'%d' % a0", "'%x' % a0", "'%X' % a0", "'%o' % a0", "int(str(a0))", "int('%x' % a0, 16)", "bool(a0)",
		"int(a0, a1)", "len(range(a0, a1, a2))", "bool(range(a0, a1, a2))", "range(a0, a1, a2)[a3]", "a3 in range(a0, a1, a2)",
		"list(range(a0, a1, a2))", "[x for x in range(a0, a1, a2)]", "list(reversed(range(a0, a1, a2)))",
		"[range(a0, a1, a2)[0], range(a0, a1, a2)[1], range(a0, a1, a2)[-1]]",
		"list(range(a0, a1, a2)[a3:a4:a5])", "len(range(a0, a1, a2)[a3:a4:a5])", "a3 in range(a0, a1, a2)[a4:a5:a6]",
		"range(a0, a1, a2) == range(a3, a4, a5)", "range(a0, a1, a2) != range(a3, a4, a5)",
		"len('abc' * a0)", "len(a0 * [1, 2, 3])", "len((1, 2, 3) * a0)", "len(b'abc' * a0)", "len('' * a0)", "len([] * a0)")
	for n := 0; n <= 4; n++ {
		templates = append(templates, fmt.Sprintf("[p[0] for p in enumerate(%s, a0)]", map[int]string{0: "[]", 1: "['a']", 2: "['a', 'b']", 3: "('a', 'b', 'c')", 4: "{'a': 1, 'b': 2, 'c': 3, 'd': 4}"}[n]))
	}
	compileWith7(templates)

	ints := intPool(*small)
	floats := floatPool(*small)

	// 1. integer operators: full ordered product of the boundary pool, then random pairs
	for _, x := range ints {
		intUnary(x)
		conversions(x)
		for _, y := range ints {
			intBinary(x, y)
			intCompare(x, y)
		}
	}
	shiftCounts := []int64{0, 1, 31, 32, 33, 62, 63, 64, 65, 200, 511, 512, 513, 1 << 20, math.MaxInt32, math.MaxInt32 + 1, -1}
	for i := 0; i < *nrand; i++ {
		x, y := randInt(rd, 200), randInt(rd, 200)
		switch rd.Intn(4) {
		case 0:
			y = hx.Pick(rd, ints)
		case 1:
			x = hx.Pick(rd, ints)
		}
		intBinary(x, y)
		intCompare(x, y)
		intUnary(x)
		conversions(x)
		s := big.NewInt(hx.Pick(rd, shiftCounts))
		emit("bin", tBin("<<"), oracleBin("<<", x, s), false, mkInt(x), mkInt(s))
		emit("bin", tBin(">>"), oracleBin(">>", x, s), false, mkInt(x), mkInt(s))
		if i%4 == 0 {
			intTrueDiv(x, y)
			textCases(rd, x)
		}
	}
	for _, x := range ints {
		for _, s := range shiftCounts {
			sb := big.NewInt(s)
			emit("bin", tBin("<<"), oracleBin("<<", x, sb), false, mkInt(x), mkInt(sb))
			emit("bin", tBin(">>"), oracleBin(">>", x, sb), false, mkInt(x), mkInt(sb))
		}
		textCases(rd, x)
		for _, y := range []*big.Int{big.NewInt(3), big.NewInt(-7), pow2(64), big.NewInt(0), add(pow2(53), 1)} {
			intTrueDiv(x, y)
			intTrueDiv(y, x)
		}
	}

	// 1b. every numeric built-in of the universe and the math module on the boundary pool
	partners := []*big.Int{big.NewInt(0), big.NewInt(-1), big.NewInt(2), neg(pow2(31)), add(pow2(31), -1), pow2(53), neg(pow2(63)), add(pow2(63), -1), pow2(64), neg(add(pow2(64), 1))}
	universeCases(ints, partners)

	// 1c. int literals of every radix through the scanner
	litPool := append([]*big.Int{}, ints...)
	for _, e := range []uint{62, 63, 64, 65, 100, 128, 200} {
		litPool = append(litPool, pow2(e), add(pow2(e), -1), add(pow2(e), 1))
	}
	for i := 0; i < *nrand/8; i++ {
		litPool = append(litPool, randInt(rd.Split(), 200))
	}
	for _, x := range litPool {
		if x.Sign() >= 0 {
			literalCases(x)
		}
	}

	// 2. ints x floats
	for _, f := range floats {
		floatConversions(f)
		for _, x := range ints {
			intFloatCompare(x, f)
			mixedArith(x, f)
		}
	}
	// int/float comparison class: an int n of every magnitude band outside int32 against
	// the floats just around it, in both operand orders and all six operators
	compareNeighbourhoods(rd)

	// the float overflow boundary: the largest finite float is 2^1024 - 2^971; ints from
	// 2^1024 - 2^970 on round to an infinity and must be rejected by conversions
	maxFloat := new(big.Int).Sub(pow2(1024), pow2(971))
	firstInf := new(big.Int).Sub(pow2(1024), pow2(970))
	for _, h := range []*big.Int{pow2(1023), add(pow2(1023), -1), maxFloat, add(maxFloat, 1), add(firstInf, -1), firstInf, pow2(1024), add(pow2(1024), 1), pow2(1100), pow2(2000)} {
		for _, x := range []*big.Int{h, neg(h)} {
			conversions(x)
			intTrueDiv(x, big.NewInt(3))
			intTrueDiv(big.NewInt(3), x)
			for _, f := range []float64{0.5, math.MaxFloat64, -math.MaxFloat64, math.Inf(1), math.Inf(-1), math.NaN(), 1e308, math.Nextafter(math.MaxFloat64, 0), 0} {
				intFloatCompare(x, f)
				mixedArith(x, f)
			}
		}
	}
	for i := 0; i < *nrand; i++ {
		f := randFloat(rd)
		x := randInt(rd, 200)
		if rd.Intn(3) == 0 && !math.IsInf(f, 0) && !math.IsNaN(f) {
			// an integer next to the float
			x = add(floatTrunc(f), int64(rd.Intn(3)-1))
		}
		floatConversions(f)
		intFloatCompare(x, f)
		mixedArith(x, f)
	}

	// 3. range / enumerate / repetition
	rpool := []*big.Int{}
	for _, s := range []string{"0", "1", "-1", "2", "3", "-3", "5", "10", "-10", "7", "100", "2147483647", "2147483648", "-2147483648", "-2147483649", "4294967296",
		"1099511627776", "2199023255552", "9007199254740993", "4611686018427387904", "-4611686018427387904", "9223372036854775807", "9223372036854775806", "-9223372036854775808", "-9223372036854775807",
		"9223372036854775808", "-9223372036854775809", "18446744073709551616"} {
		rpool = append(rpool, bi(s))
	}
	if *small {
		rpool = []*big.Int{bi("0"), bi("1"), bi("-1"), bi("3"), bi("10"), bi("-7"), bi("2147483648"), bi("1099511627776"), bi("2199023255552"), bi("4611686018427387904"),
			bi("9223372036854775807"), bi("-9223372036854775808"), bi("9223372036854775808")}
	}
	probesF := []float64{0, 1, 1.5, 2, 2.5, -1, 1e18, 9223372036854775808.0, math.Inf(1), math.NaN(), 0.999999, 4294967296, 1099511627776}
	var rngs []rng
	for _, a := range rpool {
		for _, b := range rpool {
			for _, c := range rpool {
				rngs = append(rngs, rng{a, b, c})
			}
		}
	}
	nr := *nrand
	pickR := func() rng {
		switch rd.Intn(3) {
		case 0:
			return hx.Pick(rd, rngs)
		case 1: // small, dense
			return rng{big.NewInt(int64(rd.Intn(40) - 20)), big.NewInt(int64(rd.Intn(60) - 30)), big.NewInt(int64(rd.Intn(11) - 5))}
		}
		a, b := randInt(rd, 64), randInt(rd, 64)
		c := randInt(rd, 64)
		if rd.Bool() {
			c = big.NewInt(int64(rd.Intn(9) - 4))
		}
		return rng{a, b, c}
	}
	for i := 0; i < nr; i++ {
		r := pickR()
		if r.mustFail() && rd.Intn(10) != 0 {
			continue
		}
		probes := []*big.Int{big.NewInt(0), r.a, r.b, add(r.a, 1), add(r.b, -1), hx.Pick(rd, rpool), randInt(rd, 70)}
		if !r.mustFail() {
			n := seqLen(r.a, r.b, r.c)
			if n.Sign() > 0 {
				k := new(big.Int).Mod(new(big.Int).Abs(randInt(rd, n.BitLen()+16)), n)
				probes = append(probes, seqAt(r.a, r.c, k), add(seqAt(r.a, r.c, k), 1), seqAt(r.a, r.c, add(n, -1)), seqAt(r.a, r.c, n), seqAt(r.a, r.c, big.NewInt(-1)))
			}
		}
		pf := []float64{hx.Pick(rd, probesF), hx.Pick(rd, probesF), randFloat(rd)}
		rangeCases(rd, r, probes, pf)
		sliceCases(rd, r)
		if i%2 == 0 {
			r2 := pickR()
			if rd.Intn(3) == 0 { // same sequence written differently
				r2 = rng{r.a, add(r.b, int64(rd.Intn(3))), r.c}
			}
			rangeEq(r, r2)
		}
	}
	for _, s := range rpool {
		for n := 0; n <= 4; n++ {
			enumerateCase(s, n)
			enumerateCase(add(s, -1), n)
			if n == 3 {
				enumerateKinds(s)
				enumerateKinds(add(s, -1))
				enumerateKinds(add(s, -2))
			}
		}
		repeatCases(s)
		repeatCases(neg(s))
	}

	hx.Emit(map[string]any{"k": "summary", "rep": *rep, "counts": counts})
	hx.Flush()
}
