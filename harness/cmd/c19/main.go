// c19: runs the real time/duration operators on ordered pairs of operand
// kinds and prints what was observed (one JSON object per line).
package main

import (
	"flag"
	"fmt"
	"math"
	"math/big"
	"time"

	stime "go.starlark.net/lib/time"
	"go.starlark.net/starlark"
	"go.starlark.net/syntax"

	"verifharness/internal/hx"
)

type V struct {
	K    string `json:"k"`              // time dur int float other bool err panic
	NS   string `json:"ns,omitempty"`   // time, dur: nanoseconds (decimal)
	Zone int    `json:"zone,omitempty"` // time
	Z    string `json:"z,omitempty"`    // int
	Bits uint64 `json:"bits,omitempty"` // float
	FID  int    `json:"fid,omitempty"`  // float operand: index in pool
	B    bool   `json:"b,omitempty"`
	Tag  int    `json:"tag,omitempty"`
	Msg  string `json:"msg,omitempty"`
	Hash *uint32 `json:"hash,omitempty"`
}

type Case struct {
	Kind string `json:"kind"` // bin cmp ts
	Op   string `json:"op"`
	X    V      `json:"x"`
	Y    V      `json:"y"`
	R    V      `json:"r"`
}

var zones = []*time.Location{time.UTC, time.FixedZone("A", 3600), time.FixedZone("B", -5*3600-1800), time.FixedZone("C", 14*3600)}

func init() {
	// a location with daylight-saving transitions (whole-day durations across an
	// offset change must still add exact nanoseconds), when the zone database is there
	for _, name := range []string{"America/New_York", "Europe/Paris"} {
		if l, err := time.LoadLocation(name); err == nil {
			zones = append(zones, l)
		}
	}
	// the process's local zone must not matter: make it something that is not UTC
	time.Local = time.FixedZone("LOCALX", 5*3600+1800)
}

func zoneID(l *time.Location) int {
	for i, z := range zones {
		if z.String() == l.String() {
			return i
		}
	}
	return -1
}

func timeNS(t time.Time) *big.Int {
	n := new(big.Int).Mul(big.NewInt(t.Unix()), big.NewInt(1e9))
	return n.Add(n, big.NewInt(int64(t.Nanosecond())))
}

func describe(v starlark.Value, err error) V {
	if err != nil {
		return V{K: "err", Msg: err.Error()}
	}
	switch v := v.(type) {
	case stime.Time:
		t := time.Time(v)
		return V{K: "time", NS: timeNS(t).String(), Zone: zoneID(t.Location())}
	case stime.Duration:
		return V{K: "dur", NS: fmt.Sprint(int64(v))}
	case starlark.Int:
		return V{K: "int", Z: v.String()}
	case starlark.Float:
		return V{K: "float", Bits: math.Float64bits(float64(v))}
	case starlark.Bool:
		return V{K: "bool", B: bool(v)}
	}
	return V{K: "other", Msg: fmt.Sprintf("%T", v)}
}

type operand struct {
	v starlark.Value
	d V
}

func mkTime(ns int64, zone int) operand {
	t := time.Unix(0, ns).In(zones[zone])
	return operand{stime.Time(t), V{K: "time", NS: fmt.Sprint(ns), Zone: zone}}
}
func mkDur(ns int64) operand { return operand{stime.Duration(ns), V{K: "dur", NS: fmt.Sprint(ns)}} }
func mkInt(z *big.Int) operand {
	return operand{starlark.MakeBigInt(z), V{K: "int", Z: z.String()}}
}

var floats = []float64{0, math.Copysign(0, -1), 0.5, 2, -3.7, 1e9, 1e300, math.NaN(), math.Inf(1), math.Inf(-1), 1e-9, 3}

func mkFloat(i int) operand {
	return operand{starlark.Float(floats[i]), V{K: "float", Bits: math.Float64bits(floats[i]), FID: i}}
}
func mkOther(i int) operand {
	switch i {
	case 0:
		return operand{starlark.None, V{K: "other", Tag: 0}}
	case 1:
		return operand{starlark.NewList([]starlark.Value{starlark.MakeInt(1)}), V{K: "other", Tag: 1}}
	case 2:
		return operand{starlark.Tuple{starlark.MakeInt(1)}, V{K: "other", Tag: 2}}
	default:
		return operand{starlark.NewDict(1), V{K: "other", Tag: 3}}
	}
}

var binops = []struct {
	s string
	t syntax.Token
}{{"+", syntax.PLUS}, {"-", syntax.MINUS}, {"*", syntax.STAR}, {"/", syntax.SLASH}, {"//", syntax.SLASHSLASH}, {"%", syntax.PERCENT}}
var cmpops = []struct {
	s string
	t syntax.Token
}{{"==", syntax.EQL}, {"!=", syntax.NEQ}, {"<", syntax.LT}, {"<=", syntax.LE}, {">", syntax.GT}, {">=", syntax.GE}}

func safeBinary(op syntax.Token, x, y starlark.Value) (r V) {
	defer func() {
		if e := recover(); e != nil {
			r = V{K: "panic", Msg: fmt.Sprint(e)}
		}
	}()
	return describe(starlark.Binary(op, x, y))
}
func safeCompare(op syntax.Token, x, y starlark.Value) (r V) {
	defer func() {
		if e := recover(); e != nil {
			r = V{K: "panic", Msg: fmt.Sprint(e)}
		}
	}()
	b, err := starlark.Compare(op, x, y)
	return describe(starlark.Bool(b), err)
}

func main() {
	seed := flag.Uint64("seed", 1, "")
	nrand := flag.Int("n", 2000, "random pairs in addition to the boundary product")
	small := flag.Bool("small", false, "use the reduced boundary pool (quick tier)")
	flag.Parse()
	r := hx.NewRand(*seed)

	durB := []int64{0, 1, -1, 1e9, -1e9, 3600e9, 1500000000, -2500000001, math.MaxInt64, math.MinInt64 + 1, math.MaxInt64 / 2, math.MinInt64 / 2, 7}
	timeB := []int64{0, 1, -1, 1700000000123456789, -1500000000999999999, math.MaxInt64, math.MinInt64 + 1, 86400e9, 999999999}
	intB := []*big.Int{big.NewInt(0), big.NewInt(1), big.NewInt(-1), big.NewInt(2), big.NewInt(-7), big.NewInt(1 << 31), big.NewInt(math.MaxInt64), big.NewInt(math.MinInt64),
		new(big.Int).Lsh(big.NewInt(1), 63), new(big.Int).Lsh(big.NewInt(1), 64), new(big.Int).Neg(new(big.Int).Lsh(big.NewInt(1), 70))}

	// whole days (calendar arithmetic must not replace exact addition), instants next to DST changes
	durB = append(durB, 86400e9, -86400e9, 2*86400e9, 7*86400e9)
	timeB = append(timeB, 1615636800e9, 1636261200e9, 1616893200e9)
	if *small {
		durB = []int64{0, 1, -2500000001, 3600e9, math.MaxInt64, math.MinInt64 + 1, 86400e9, -2 * 86400e9}
		timeB = []int64{0, -1, 1700000000123456789, math.MaxInt64, math.MinInt64 + 1, 1615636800e9, 1636261200e9}
		intB = []*big.Int{big.NewInt(0), big.NewInt(-7), big.NewInt(2), big.NewInt(math.MinInt64), new(big.Int).Lsh(big.NewInt(1), 63)}
	}
	var pool []operand
	for i, t := range timeB {
		pool = append(pool, mkTime(t, i%len(zones)))
		if t == 1615636800e9 || t == 1636261200e9 || t == 1616893200e9 {
			for z := 4; z < len(zones); z++ {
				pool = append(pool, mkTime(t, z))
			}
		}
	}
	pool = append(pool, mkTime(1700000000123456789, 2)) // same instant, other zone
	for _, d := range durB {
		pool = append(pool, mkDur(d))
	}
	for _, z := range intB {
		pool = append(pool, mkInt(z))
	}
	for i := range floats {
		if *small && i >= 5 && i != 7 {
			continue
		}
		pool = append(pool, mkFloat(i))
	}
	for i := 0; i < 4; i++ {
		if *small && i >= 2 {
			continue
		}
		pool = append(pool, mkOther(i))
	}
	randOperand := func() operand {
		mag := func() int64 {
			sh := uint(r.Intn(63))
			v := int64(r.Uint64()>>1) >> sh
			if r.Bool() {
				v = -v
			}
			return v
		}
		switch r.Intn(10) {
		case 0, 1, 2:
			return mkTime(mag(), r.Intn(len(zones)))
		case 3, 4, 5:
			return mkDur(mag())
		case 6:
			return mkDur(int64(r.Intn(41)-20) * 86400e9) // whole days
		case 7:
			z := big.NewInt(mag())
			if r.Intn(4) == 0 {
				z.Lsh(z, uint(r.Intn(80)))
			}
			return mkInt(z)
		case 8:
			return mkFloat(r.Intn(len(floats)))
		default:
			return mkOther(r.Intn(4))
		}
	}
	emitPair := func(x, y operand) {
		if x.d.K != "time" && x.d.K != "dur" && y.d.K != "time" && y.d.K != "dur" {
			return
		}
		for _, o := range binops {
			hx.Emit(Case{"bin", o.s, x.d, y.d, safeBinary(o.t, x.v, y.v)})
		}
		for _, o := range cmpops {
			hx.Emit(Case{"cmp", o.s, x.d, y.d, safeCompare(o.t, x.v, y.v)})
		}
	}
	for _, x := range pool {
		for _, y := range pool {
			emitPair(x, y)
		}
	}
	for i := 0; i < *nrand; i++ {
		emitPair(randOperand(), randOperand())
	}
	// hashes and timestamp attributes through the Starlark-visible API
	thread := &starlark.Thread{Name: "c19"}
	for i := 0; i < 200+len(timeB); i++ {
		var o operand
		if i < len(timeB) {
			o = mkTime(timeB[i], i%len(zones))
		} else {
			o = randOperand()
		}
		if o.d.K != "time" && o.d.K != "dur" {
			continue
		}
		h, err := o.v.Hash()
		c := Case{Kind: "hash", X: o.d}
		if err != nil {
			c.R = V{K: "err"}
		} else {
			c.R = V{K: "int", Z: fmt.Sprint(h)}
		}
		hx.Emit(c)
		if o.d.K == "dur" {
			env := starlark.StringDict{"d": o.v, "time": stime.Module}
			for _, src := range []string{
				"time.parse_duration(str(d)) == d",
				"{d: 1}[time.parse_duration(str(d))] == 1",
				"d + time.second - time.second == d",
			} {
				v, err := starlark.Eval(thread, "c19", src, env)
				hx.Emit(Case{"law", src, o.d, V{}, describe(v, err)})
			}
		}
		if o.d.K == "time" {
			env := starlark.StringDict{"t": o.v, "time": stime.Module}
			// direct laws on the implementation (no model): component and text round trips
			for _, src := range []string{
				"(lambda u: time.time(year=u.year, month=u.month, day=u.day, hour=u.hour, minute=u.minute, second=u.second, nanosecond=u.nanosecond, location='UTC') == u)(t.in_location('UTC'))",
				"time.from_timestamp(t.unix, t.nanosecond).unix_nano == t.unix_nano",
				"t.in_location('UTC') == t and {t: 1}[t.in_location('UTC')] == 1 and t.in_location('UTC') in set([t])",
				"(t + time.hour) - time.hour == t and (t - time.from_timestamp(0)) + time.from_timestamp(0) == t",
				"(lambda u: time.time(year=u.year, month=u.month, day=u.day, hour=u.hour, minute=u.minute, second=u.second, nanosecond=u.nanosecond) == u)(t.in_location('UTC'))",
				"t.in_location('') == t and str(t.in_location('')) == str(t.in_location('UTC'))",
				// the calendar and clock attributes are those of the value's own zone, i.e. what format prints
				"t.format('2006-1-2 4 5') == '%d-%d-%d %d %d' % (t.year, t.month, t.day, t.minute, t.second) and int(t.format('15')) == t.hour",
				"(lambda u: u.format('2006-1-2 4 5') == '%d-%d-%d %d %d' % (u.year, u.month, u.day, u.minute, u.second) and int(u.format('15')) == u.hour)(t.in_location('Asia/Tokyo'))",
				"(lambda u: u.format('2006-1-2 4 5') == '%d-%d-%d %d %d' % (u.year, u.month, u.day, u.minute, u.second) and int(u.format('15')) == u.hour)(t.in_location('America/Los_Angeles'))",
				"(lambda u: time.time(year=u.year, month=u.month, day=u.day, hour=u.hour, minute=u.minute, second=u.second, nanosecond=u.nanosecond, location='Asia/Tokyo') == u)(t.in_location('Asia/Tokyo'))",
				"str(time.time(year=2001, month=2, day=3, hour=4)) == str(time.time(year=2001, month=2, day=3, hour=4, location='UTC'))",
			} {
				v, err := starlark.Eval(thread, "c19", src, env)
				hx.Emit(Case{"law", src, o.d, V{}, describe(v, err)})
			}
			for _, src := range []string{
				"time.from_timestamp(t.unix, t.nanosecond)",
				"time.from_timestamp(0, t.unix_nano)",
				"time.from_timestamp(t.unix, t.nanosecond) == t",
				"t.unix", "t.nanosecond", "t.unix_nano",
			} {
				v, err := starlark.Eval(thread, "c19", src, env)
				hx.Emit(Case{"ts", src, o.d, V{}, describe(v, err)})
			}
		}
	}
	hx.Flush()
}
