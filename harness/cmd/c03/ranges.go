package main

// c03 ranges -repo DIR: every `for ... := range <map>` in the anchored files,
// with what happens to the enumeration order: the collected slice is sorted
// before the function returns, the body is insensitive to the order (writes
// into another map, Freeze, counting), or the order escapes.  Standard library
// only (go/parser, go/ast); maps are recognised syntactically: identifiers,
// struct fields, parameters and results whose declared type is a map type or a
// named map type of the same package set (StringDict), make(map...), map literals.
import (
	"flag"
	"fmt"
	"go/ast"
	"go/parser"
	"go/token"
	"os"
	"path/filepath"
	"sort"
	"strings"

	"verifharness/internal/hx"
)

var rangeFiles = []string{
	"starlark/hashtable.go", "starlark/value.go", "starlark/library.go", "starlark/eval.go", "starlark/interp.go",
	"starlark/unpack.go", "starlark/int.go", "starlark/iter.go", "starlark/debug.go",
	"starlarkstruct/struct.go", "starlarkstruct/module.go", "lib/json/json.go", "lib/math/math.go", "lib/time/time.go",
	"resolve/resolve.go", "resolve/binding.go", "internal/compile/compile.go", "syntax/scan.go", "syntax/parse.go",
}

type mapRange struct {
	File    string   `json:"file"`
	Line    int      `json:"line"`
	Func    string   `json:"func"`
	Expr    string   `json:"expr"`
	Class   string   `json:"class"` // sorted | commutative | exposed
	Appends []string `json:"appends,omitempty"`
	Why     string   `json:"why"`
}

func exprString(e ast.Expr) string {
	switch t := e.(type) {
	case *ast.Ident:
		return t.Name
	case *ast.SelectorExpr:
		return exprString(t.X) + "." + t.Sel.Name
	case *ast.CallExpr:
		return exprString(t.Fun) + "()"
	case *ast.StarExpr:
		return "*" + exprString(t.X)
	case *ast.ParenExpr:
		return exprString(t.X)
	case *ast.IndexExpr:
		return exprString(t.X) + "[]"
	case *ast.CompositeLit:
		return typeStr(t.Type) + "{}"
	case *ast.UnaryExpr:
		return t.Op.String() + exprString(t.X)
	}
	return fmt.Sprintf("%T", e)
}

func typeStr(e ast.Expr) string {
	switch t := e.(type) {
	case nil:
		return ""
	case *ast.Ident:
		return t.Name
	case *ast.SelectorExpr:
		return typeStr(t.X) + "." + t.Sel.Name
	case *ast.StarExpr:
		return "*" + typeStr(t.X)
	case *ast.ArrayType:
		return "[]" + typeStr(t.Elt)
	case *ast.MapType:
		return "map[" + typeStr(t.Key) + "]" + typeStr(t.Value)
	case *ast.Ellipsis:
		return "..." + typeStr(t.Elt)
	}
	return fmt.Sprintf("%T", e)
}

type mapInfo struct {
	namedMaps  map[string]bool // type names whose underlying type is a map
	mapFields  map[string]bool // struct field names of map type
	mapGlobals map[string]bool // package-level variables of map type
	mapFuncs   map[string]bool // functions / methods whose (first) result is a map
}

func (mi *mapInfo) isMapType(e ast.Expr) bool {
	switch t := e.(type) {
	case *ast.MapType:
		return true
	case *ast.Ident:
		return mi.namedMaps[t.Name]
	case *ast.SelectorExpr:
		return mi.namedMaps[t.Sel.Name]
	case *ast.ParenExpr:
		return mi.isMapType(t.X)
	}
	return false
}

func collect(files []*ast.File) *mapInfo {
	mi := &mapInfo{namedMaps: map[string]bool{}, mapFields: map[string]bool{}, mapGlobals: map[string]bool{}, mapFuncs: map[string]bool{}}
	for pass := 0; pass < 2; pass++ {
		for _, f := range files {
			for _, d := range f.Decls {
				switch d := d.(type) {
				case *ast.GenDecl:
					for _, sp := range d.Specs {
						switch sp := sp.(type) {
						case *ast.TypeSpec:
							if mi.isMapType(sp.Type) {
								mi.namedMaps[sp.Name.Name] = true
							}
							if st, ok := sp.Type.(*ast.StructType); ok {
								for _, fl := range st.Fields.List {
									if mi.isMapType(fl.Type) {
										for _, n := range fl.Names {
											mi.mapFields[n.Name] = true
										}
									}
								}
							}
						case *ast.ValueSpec:
							for i, n := range sp.Names {
								if sp.Type != nil && mi.isMapType(sp.Type) {
									mi.mapGlobals[n.Name] = true
								}
								if i < len(sp.Values) && mi.isMapExprShallow(sp.Values[i]) {
									mi.mapGlobals[n.Name] = true
								}
							}
						}
					}
				case *ast.FuncDecl:
					if d.Type.Results != nil && len(d.Type.Results.List) > 0 && mi.isMapType(d.Type.Results.List[0].Type) {
						mi.mapFuncs[d.Name.Name] = true
					}
				}
			}
		}
	}
	return mi
}

func (mi *mapInfo) isMapExprShallow(e ast.Expr) bool {
	switch t := e.(type) {
	case *ast.CompositeLit:
		return t.Type != nil && mi.isMapType(t.Type)
	case *ast.CallExpr:
		if id, ok := t.Fun.(*ast.Ident); ok && id.Name == "make" && len(t.Args) > 0 {
			return mi.isMapType(t.Args[0])
		}
		if mi.isMapType(t.Fun) && len(t.Args) == 1 { // conversion
			return true
		}
		switch fn := t.Fun.(type) {
		case *ast.Ident:
			return mi.mapFuncs[fn.Name]
		case *ast.SelectorExpr:
			return mi.mapFuncs[fn.Sel.Name]
		}
	}
	return false
}

// local map variables of a function: parameters, receivers, := / var with map-typed right-hand side
func (mi *mapInfo) locals(fd *ast.FuncDecl) map[string]bool {
	loc := map[string]bool{}
	addFields := func(fl *ast.FieldList) {
		if fl == nil {
			return
		}
		for _, f := range fl.List {
			if mi.isMapType(f.Type) {
				for _, n := range f.Names {
					loc[n.Name] = true
				}
			}
		}
	}
	addFields(fd.Recv)
	addFields(fd.Type.Params)
	addFields(fd.Type.Results)
	ast.Inspect(fd.Body, func(n ast.Node) bool {
		switch x := n.(type) {
		case *ast.FuncLit:
			addFields(x.Type.Params)
		case *ast.AssignStmt:
			for i, l := range x.Lhs {
				if id, ok := l.(*ast.Ident); ok && i < len(x.Rhs) && (mi.isMapExprShallow(x.Rhs[i]) || mi.isMapExpr(x.Rhs[i], loc)) {
					loc[id.Name] = true
				}
			}
		case *ast.DeclStmt:
			if gd, ok := x.Decl.(*ast.GenDecl); ok {
				for _, sp := range gd.Specs {
					if vs, ok := sp.(*ast.ValueSpec); ok {
						for i, n := range vs.Names {
							if (vs.Type != nil && mi.isMapType(vs.Type)) || (i < len(vs.Values) && mi.isMapExprShallow(vs.Values[i])) {
								loc[n.Name] = true
							}
						}
					}
				}
			}
		}
		return true
	})
	return loc
}

func (mi *mapInfo) isMapExpr(e ast.Expr, loc map[string]bool) bool {
	switch t := e.(type) {
	case *ast.Ident:
		return loc[t.Name] || mi.mapGlobals[t.Name]
	case *ast.SelectorExpr:
		return mi.mapFields[t.Sel.Name] || mi.mapGlobals[t.Sel.Name]
	case *ast.ParenExpr:
		return mi.isMapExpr(t.X, loc)
	case *ast.StarExpr:
		return mi.isMapExpr(t.X, loc)
	}
	return mi.isMapExprShallow(e)
}

// classify the body of a range-over-map statement
func classify(fd *ast.FuncDecl, rs *ast.RangeStmt) (class string, appends []string, why string) {
	commutative := true
	var reasons []string
	appended := map[string]bool{}
	var visit func(s ast.Stmt)
	visitBlock := func(b *ast.BlockStmt) {
		if b == nil {
			return
		}
		for _, s := range b.List {
			visit(s)
		}
	}
	visit = func(s ast.Stmt) {
		switch x := s.(type) {
		case *ast.AssignStmt:
			for i, l := range x.Lhs {
				switch lt := l.(type) {
				case *ast.IndexExpr:
					// m[k] = v : writing into a map / set-like structure keyed by the element
					continue
				case *ast.Ident:
					if i < len(x.Rhs) {
						if ce, ok := x.Rhs[i].(*ast.CallExpr); ok {
							if id, ok := ce.Fun.(*ast.Ident); ok && id.Name == "append" {
								appended[lt.Name] = true
								continue
							}
						}
					}
					if lt.Name == "_" {
						continue
					}
					// accumulation with a commutative operator (n += ..., ok = ok && ...)
					if x.Tok == token.ADD_ASSIGN || x.Tok == token.OR_ASSIGN || x.Tok == token.AND_ASSIGN {
						continue
					}
					if x.Tok == token.DEFINE {
						continue // a fresh local of the iteration
					}
					commutative = false
					reasons = append(reasons, "assigns "+lt.Name)
				case *ast.SelectorExpr:
					if ce, ok := x.Rhs[0].(*ast.CallExpr); ok {
						if id, ok := ce.Fun.(*ast.Ident); ok && id.Name == "append" {
							appended[exprString(lt)] = true
							continue
						}
					}
					commutative = false
					reasons = append(reasons, "assigns "+exprString(lt))
				default:
					commutative = false
					reasons = append(reasons, "assigns")
				}
			}
		case *ast.ExprStmt:
			if ce, ok := x.X.(*ast.CallExpr); ok {
				name := exprString(ce.Fun)
				base := name
				if i := strings.LastIndex(base, "."); i >= 0 {
					base = base[i+1:]
				}
				switch base {
				case "Freeze", "delete", "Done":
					return
				}
				commutative = false
				reasons = append(reasons, "calls "+name)
				return
			}
			commutative = false
		case *ast.IncDecStmt:
		case *ast.IfStmt:
			if x.Init != nil {
				visit(x.Init)
			}
			visitBlock(x.Body)
			if x.Else != nil {
				visit(x.Else)
			}
		case *ast.BlockStmt:
			visitBlock(x)
		case *ast.DeclStmt:
		case *ast.BranchStmt:
			if x.Tok == token.BREAK {
				commutative = false
				reasons = append(reasons, "break")
			}
		case *ast.ReturnStmt:
			commutative = false
			reasons = append(reasons, "returns from inside the loop")
		case *ast.ForStmt:
			visitBlock(x.Body)
		case *ast.RangeStmt:
			visitBlock(x.Body)
		case *ast.SwitchStmt:
			visitBlock(x.Body)
		case *ast.CaseClause:
			for _, s := range x.Body {
				visit(s)
			}
		default:
			commutative = false
			reasons = append(reasons, fmt.Sprintf("%T", s))
		}
	}
	visitBlock(rs.Body)
	for a := range appended {
		appends = append(appends, a)
	}
	sort.Strings(appends)
	if len(appends) > 0 {
		// every appended slice must be sorted after the loop, in the same function
		unsorted := []string{}
		for _, a := range appends {
			if !sortedAfter(fd, rs, a) {
				unsorted = append(unsorted, a)
			}
		}
		if len(unsorted) == 0 && commutative {
			return "sorted", appends, "collected into " + strings.Join(appends, ",") + ", sorted after the loop"
		}
		if len(unsorted) > 0 {
			return "exposed", appends, "collected into " + strings.Join(unsorted, ",") + " which is not sorted afterwards"
		}
	}
	if commutative {
		return "commutative", appends, "body only writes map entries / freezes / counts"
	}
	return "exposed", appends, strings.Join(reasons, "; ")
}

func sortedAfter(fd *ast.FuncDecl, rs *ast.RangeStmt, name string) bool {
	found := false
	ast.Inspect(fd.Body, func(n ast.Node) bool {
		ce, ok := n.(*ast.CallExpr)
		if !ok || ce.Pos() < rs.End() {
			return true
		}
		fn := exprString(ce.Fun)
		if strings.HasPrefix(fn, "sort.") || strings.HasPrefix(fn, "slices.Sort") {
			for _, a := range ce.Args {
				s := exprString(a)
				if s == name || strings.HasPrefix(s, name+"[") || strings.HasSuffix(s, "("+name+")") || strings.Contains(s, name) {
					found = true
				}
				if c, ok := a.(*ast.CallExpr); ok { // sort.Sort(byName(x))
					for _, aa := range c.Args {
						if exprString(aa) == name {
							found = true
						}
					}
				}
			}
		}
		return true
	})
	return found
}

func mapRanges(repo string) ([]mapRange, error) {
	fset := token.NewFileSet()
	byDir := map[string][]*ast.File{}
	names := map[*ast.File]string{}
	for _, rel := range rangeFiles {
		p := filepath.Join(repo, rel)
		if _, err := os.Stat(p); err != nil {
			continue
		}
		f, err := parser.ParseFile(fset, p, nil, 0)
		if err != nil {
			return nil, err
		}
		byDir[filepath.Dir(rel)] = append(byDir[filepath.Dir(rel)], f)
		names[f] = rel
	}
	// named map types are shared across the packages (starlark.StringDict)
	var all []*ast.File
	for _, fs := range byDir {
		all = append(all, fs...)
	}
	mi := collect(all)
	var out []mapRange
	for _, f := range all {
		for _, d := range f.Decls {
			fd, ok := d.(*ast.FuncDecl)
			if !ok || fd.Body == nil {
				continue
			}
			loc := mi.locals(fd)
			fname := fd.Name.Name
			if fd.Recv != nil && len(fd.Recv.List) > 0 {
				fname = strings.TrimPrefix(typeStr(fd.Recv.List[0].Type), "*") + "." + fname
			}
			ast.Inspect(fd.Body, func(n ast.Node) bool {
				rs, ok := n.(*ast.RangeStmt)
				if !ok || !mi.isMapExpr(rs.X, loc) {
					return true
				}
				cl, app, why := classify(fd, rs)
				out = append(out, mapRange{File: names[f], Line: fset.Position(rs.Pos()).Line, Func: fname, Expr: exprString(rs.X), Class: cl, Appends: app, Why: why})
				return true
			})
		}
	}
	sort.Slice(out, func(i, j int) bool {
		if out[i].File != out[j].File {
			return out[i].File < out[j].File
		}
		return out[i].Line < out[j].Line
	})
	return out, nil
}

func rangesMain(args []string) {
	fs := flag.NewFlagSet("ranges", flag.ExitOnError)
	repo := fs.String("repo", "/repo", "")
	fs.Parse(args)
	rs, err := mapRanges(*repo)
	if err != nil {
		fmt.Fprintln(os.Stderr, err)
		os.Exit(1)
	}
	for _, r := range rs {
		hx.Emit(map[string]any{"kind": "maprange", "r": r})
	}
	hx.Flush()
}
