package main

// Program generator for the determinism runs: dict / set / struct / json /
// dir()-heavy programs whose keys are mostly >= 12 bytes long (so that the
// per-process seeded maphash path of hashString is the one that places them),
// optionally ending in an error raised inside nested calls (message + backtrace).
import (
	"fmt"
	"strings"

	"verifharness/internal/hx"
)

var wordPool = []string{
	"alpha_centauri_b", "betelgeuse_supergiant", "cassiopeia_constellation", "deneb_algedi_star", "epsilon_eridani_system",
	"fomalhaut_debris_disk", "gliese_581_planet_g", "hydra_cluster_member", "izar_binary_companion", "jabbah_multiple_star",
	"kepler_22b_candidate", "lacaille_9352_dwarf", "magellanic_cloud_lmc", "nunki_sigma_sagittarii", "ophiuchus_serpent_bearer",
	"proxima_centauri_c", "quaoar_trans_neptunian", "rigel_kentaurus_a", "sirius_b_white_dwarf", "trappist_1e_habitable",
	"upsilon_andromedae", "vega_alpha_lyrae_zero", "wolf_359_red_dwarf", "xi_ursae_majoris_pair", "yed_prior_delta_oph",
	"zubenelgenubi_libra", "aldebaran_red_giant", "barnards_star_runaway", "canopus_carinae_alpha", "dubhe_ursa_major_a",
	"twelve_bytes", "thirteenbytes", "sh", "k", "eleven_byte", "mid_len_10",
	"étoile_polaire_nord", "snowman_☃_unicode_key",
}

type pg struct {
	r    *hx.Rand
	b    strings.Builder
	n    int
	tags []string
}

func (p *pg) words(n int) []string {
	idx := map[int]bool{}
	var out []string
	for len(out) < n && len(out) < len(wordPool) {
		i := p.r.Intn(len(wordPool))
		if !idx[i] {
			idx[i] = true
			out = append(out, wordPool[i])
		}
	}
	return out
}

func quoteList(ws []string) string {
	q := make([]string, len(ws))
	for i, w := range ws {
		q[i] = fmt.Sprintf("%q", w)
	}
	return "[" + strings.Join(q, ", ") + "]"
}

func (p *pg) w(format string, a ...any) { fmt.Fprintf(&p.b, format+"\n", a...) }

type block struct {
	tag string
	gen func(p *pg, id string)
}

var blocks = []block{
	{"timevals", func(p *pg, g string) {
		p.w("%s_t = time.time(year = 2021, month = 3, day = 4, location = \"UTC\")\n%s_d = time.parse_duration(\"90m\")\n%s_pair = (%s_t, %s_d, %s_t + %s_d)", g, g, g, g, g, g, g)
		p.w("%s_fields = (%s_t.year, %s_t.hour, %s_d.hours, %s_d.minutes)", g, g, g, g, g)
		// lookups that FAIL, repeated within the program (and again in every later execution in the process)
		z := fmt.Sprintf("No/Such_Zone_%d", p.r.Intn(50))
		p.w("%s_zones = [time.is_valid_timezone(z) for z in [\"UTC\", %q, \"America/New_York\", \"Mars/Olympus_Mons\", %q, \"Mars/Olympus_Mons\", \"\", \"utc\"]]", g, z, z)
		p.w("%s_again = (time.is_valid_timezone(%q), int(\"12\", 0) if False else None, {}.get(%q), [].index(1) if False else 0, \"abc\".find(%q), json.decode(\"null\"))", g, z, z, z)
	}},
	{"dictlong", func(p *pg, g string) {
		ws := p.words(6 + p.r.Intn(14))
		p.w("%s_w = %s", g, quoteList(ws))
		p.w("%s_d = {}", g)
		p.w("def %s_fill():\n    for i, w in enumerate(%s_w):\n        %s_d[w] = i * i\n%s_fill()", g, g, g, g)
		p.w("%s_d.pop(%q, None)", g, ws[p.r.Intn(len(ws))])
		p.w("%s_d[%q] = -1", g, ws[p.r.Intn(len(ws))])
		p.w("%s_keys = %s_d.keys()\n%s_items = %s_d.items()\n%s_vals = %s_d.values()", g, g, g, g, g, g)
		p.w("%s_comp = {k + \"_suffix_long\": v for k, v in %s_d.items() if v %% 2 == 0}", g, g)
		p.w("%s_str = str(%s_d) + repr(%s_comp)", g, g, g)
		p.w("%s_first = %s_d.popitem() if %s_d else None", g, g, g)
		p.w("print(%s_d)", g)
	}},
	{"setops", func(p *pg, g string) {
		a, b := p.words(5+p.r.Intn(8)), p.words(5+p.r.Intn(8))
		p.w("%s_a = set(%s)\n%s_b = set(%s)", g, quoteList(a), g, quoteList(b))
		p.w("%s_u = %s_a | %s_b\n%s_i = %s_a & %s_b\n%s_df = %s_a - %s_b\n%s_sd = %s_a ^ %s_b", g, g, g, g, g, g, g, g, g, g, g, g)
		p.w("%s_u2 = %s_a.union(%s_b)\n%s_i2 = %s_b.intersection(%s_a)\n%s_sd2 = %s_b.symmetric_difference(%s_a)", g, g, g, g, g, g, g, g, g)
		p.w("%s_l = list(%s_u) + list(%s_sd)\n%s_s = sorted(%s_u)\n%s_str = str(%s_u) + \"%%s|%%r\" %% (%s_i, %s_df)", g, g, g, g, g, g, g, g, g)
		p.w("%s_pop = %s_u.pop()\n%s_min = min(%s_a)\n%s_zip = list(zip(%s_a, %s_b))\n%s_enum = list(enumerate(%s_sd))", g, g, g, g, g, g, g, g, g)
		p.w("print(%s_u, %s_i)", g, g)
	}},
	{"structs", func(p *pg, g string) {
		ws := p.words(4 + p.r.Intn(8))
		var kv []string
		for i, w := range ws {
			kv = append(kv, fmt.Sprintf("%q: %d", strings.Map(identOnly, w), i))
		}
		p.w("%s_kw = {%s}", g, strings.Join(kv, ", "))
		p.w("%s_s = struct(**%s_kw)\n%s_t = %s_s + struct(zz_extra_field_name = [1, 2], aa_first = %s_kw)", g, g, g, g, g)
		p.w("%s_dir = dir(%s_t)\n%s_str = str(%s_t)\n%s_json = json.encode(%s_t)\n%s_eq = %s_s == struct(**%s_kw)", g, g, g, g, g, g, g, g, g)
		p.w("%s_attrs = [getattr(%s_t, n) for n in dir(%s_t)]\n%s_has = hasattr(%s_s, \"nosuch\")", g, g, g, g, g)
		p.w("def %s_f(**kw): return kw\n%s_kwcall = %s_f(**%s_kw)\n%s_kwlist = list(%s_kwcall.items())", g, g, g, g, g, g)
		p.w("print(%s_t)", g)
	}},
	{"dirs", func(p *pg, g string) {
		p.w("%s_dirs = [dir(x) for x in [\"\", b\"\", [], {}, set(), (), 1, 1.5, None, True, json, math, time, len, struct(a=1), range(3), time.now(), time.hour]]", g)
		p.w("%s_types = [type(getattr(\"\", n)) for n in dir(\"\")]", g)
		p.w("%s_mod = str(json) + str(math) + str([getattr(math, n) for n in dir(math) if n in (\"pi\", \"e\")])", g)
		p.w("%s_timeattrs = [(n, getattr(time.now(), n)) for n in dir(time.now()) if n not in (\"format\", \"in_location\")]", g)
	}},
	{"json", func(p *pg, g string) {
		ws := p.words(5 + p.r.Intn(10))
		p.w("%s_d = {w: {\"nested_key_\" + w: [i, {w: None}]} for i, w in enumerate(%s)}", g, quoteList(ws))
		p.w("%s_enc = json.encode(%s_d)\n%s_dec = json.decode(%s_enc)\n%s_ind = json.indent(%s_enc)\n%s_ei = json.encode_indent(%s_d, indent=\" \")", g, g, g, g, g, g, g, g)
		p.w("%s_round = json.decode(%s_ind) == %s_d\n%s_keys = %s_dec.keys()", g, g, g, g, g)
		p.w("%s_set = json.encode(set(%s))", g, quoteList(ws[:3]))
	}},
	{"hashes", func(p *pg, g string) {
		ws := p.words(6)
		p.w("%s_h = [hash(w) for w in %s]\n%s_hb = [hash(bytes(w)) for w in %s]", g, quoteList(ws), g, quoteList(ws))
		p.w("%s_byhash = sorted(%s, key = hash)", g, quoteList(ws))
	}},
	{"strfmt", func(p *pg, g string) {
		ws := p.words(5)
		p.w("%s_d = dict([(w, len(w)) for w in %s])\n%s_s = set(%s)", g, quoteList(ws), g, quoteList(ws))
		p.w("%s_a = \"%%s %%r %%d\" %% (%s_d, %s_s, len(%s_d))\n%s_b = \"{} {x}\".format(%s_s, x = %s_d)\n%s_c = str([%s_d, (%s_s, %s_d)])", g, g, g, g, g, g, g, g, g, g, g)
		p.w("%s_join = \",\".join(%s_d) + \"|\" + \",\".join(sorted(%s_s))", g, g, g)
		p.w("%s_upd = dict(%s_d, **{\"kw_one_long_name\": 1, \"kw_two_long_name\": 2})\n%s_upd.update([(\"pair_key_long_one\", 3)], other_keyword_arg = 4)", g, g, g)
		p.w("%s_sd = %s_upd.setdefault(\"default_key_long\", []) ", g, g)
	}},
	{"closures", func(p *pg, g string) {
		n := 3 + p.r.Intn(6)
		p.w("def %s_mk(n):\n    acc = {}\n    def add(k):\n        acc[k] = len(acc)\n        return acc\n    for i in range(n):\n        add(\"closure_key_number_%%d\" %% (i * 7 %% 5))\n    return acc, add", g)
		p.w("%s_acc, %s_add = %s_mk(%d)\n%s_sorted = sorted(%s_acc.items(), key = lambda kv: -kv[1])", g, g, g, n, g, g)
		p.w("def %s_fib(n): return n if n < 2 else %s_fib2(n - 1) + %s_fib2(n - 2)\ndef %s_fib2(n):\n    a, b = 0, 1\n    for _ in range(n): a, b = b, a + b\n    return a\n%s_f = %s_fib(%d)", g, g, g, g, g, g, 5+n)
	}},
	{"timefixed", func(p *pg, g string) {
		p.w("%s_now = time.now()\n%s_s = str(%s_now) + \" \" + str(%s_now + time.hour * 3) + \" \" + str(time.parse_duration(\"1h2m3s\"))", g, g, g, g)
		p.w("%s_t = time.time(year = 2020, month = 2, day = 29, hour = 13, location = \"UTC\")\n%s_d = {%s_now: \"now_value_long_string\", %s_t: 2}\n%s_cmp = sorted([%s_now, %s_t])", g, g, g, g, g, g, g)
		p.w("%s_unix = (%s_now.unix, %s_now.nanosecond, %s_t.format(\"2006-01-02\"))", g, g, g, g)
	}},
	{"loadmod", func(p *pg, g string) {
		p.w("load(\"mod_%d.star\", %s_x = \"exported_dict\", %s_f = \"exported_func\")", p.r.Intn(3), g, g)
		p.w("%s_y = %s_f(%s_x)\n%s_z = str(%s_x)", g, g, g, g, g)
	}},
}

func init() {
	blocks = append(blocks,
		block{"bigdict", func(p *pg, g string) {
			// several dicts of hundreds of long-string keys grown one insertion at a time through
			// many doublings, with deletions and re-insertions; membership, lookup, len and
			// iteration order of every key are part of the transcript
			n := 60 + p.r.Intn(340)
			salt := p.r.Intn(1000)
			p.w("def %s_build(n, salt, rounds):\n    out = []\n    for rd in range(rounds):\n        d = {}\n        bad = []\n        keys = [\"key_%%d_%%d_%%d_long_string_suffix\" %% (salt, rd, i * 7919 %% 100003) for i in range(n + rd * 13)]\n        for i, k in enumerate(keys):\n            d[k] = i\n            if k not in d or d.get(k) != i or len(d) != i + 1: bad.append((\"after-insert\", k, len(d)))\n        for k in keys[::3]: d.pop(k)\n        for k in keys[::6]: d[k] = -1\n        member = [k in d for k in keys]\n        looked = [d.get(k) for k in keys]\n        out.append((bad, member, looked, len(d), list(d), d.items()[:5], d.popitem()))\n    return out", g)
			p.w("%s_res = %s_build(%d, %d, %d)", g, g, n, salt, 3+p.r.Intn(4))
			p.w("%s_comp = {k: v for k, v in [(\"comp_key_%%d_long_enough_suffix\" %% i, i) for i in range(%d)]}\n%s_in = [(\"comp_key_%%d_long_enough_suffix\" %% i) in %s_comp for i in range(0, %d, 2)]", g, n, g, g, n+40)
		}},
		block{"deepkeys", func(p *pg, g string) {
			// composite keys nested deeper than the comparison limit, holding long strings, in tables of
			// several buckets; lookups of present and of ABSENT deep keys, membership, equality
			n := 10 + p.r.Intn(40)
			salt := p.r.Intn(1000)
			p.w("def %s_deep(s, depth):\n    t = (s, len(s))\n    for _ in range(depth): t = (t,)\n    return t", g)
			p.w("def %s_run(n, salt):\n    d = {}\n    s = set()\n    for i in range(n):\n        d[\"plain_key_%%d_%%d_long_enough\" %% (salt, i)] = i\n        s.add((\"pair_element_%%d_%%d_long\" %% (salt, i), i))\n    for i in range(n // 3 + 2):\n        k = %s_deep(\"deep_present_%%d_%%d_long_key\" %% (salt, i), 11 + i %% 3)\n        d[k] = -i\n        s.add(k)\n    out = []\n    for i in range(n):\n        a = %s_deep(\"deep_absent_%%d_%%d_long_key_x\" %% (salt, i), 11 + i %% 4)\n        out.append((d.get(a, \"miss\"), a in d, a in s, d == {a: 1}))\n    return out, len(d), len(s), list(d)[-2:]", g, g, g)
			p.w("%s_res = %s_run(%d, %d)\n%s_res2 = %s_run(%d, %d)", g, g, n, salt, g, g, 8+p.r.Intn(8), salt+7)
		}},
		block{"bigset", func(p *pg, g string) {
			// set algebra and subset / superset / equality queries on sets of 40-400 long strings
			n := 40 + p.r.Intn(360)
			salt := p.r.Intn(1000)
			p.w("def %s_sets(n, salt):\n    keys = [\"elem_%%d_%%d_with_a_long_tail\" %% (salt, i * 104729 %% 1000003) for i in range(n)]\n    a = set(keys)\n    out = []\n    for lo, hi in [(0, n), (0, n // 2), (n // 3, n), (n // 4, n // 4 + 40), (0, 40), (n - 40, n), (5, 9)]:\n        b = set(keys[lo:hi])\n        c = set(keys[lo:hi] + [\"extra_element_not_in_a_long\"])\n        out.append((b <= a, b < a, a >= b, a > b, b.issubset(a), a.issuperset(b), b.issubset(keys), a.issuperset(keys[lo:hi]), c <= a, c.issubset(a), b == set(reversed(keys[lo:hi])), a == b, len(a & b), len(a | c), len(a - b), len(a ^ c), sorted(a & b) == sorted(b), [k in b for k in keys[::7]]))\n    big = set(keys)\n    for k in keys[::2]: big.discard(k)\n    for k in keys[::4]: big.add(k)\n    out.append((len(big), big <= a, big.issubset(a), a.issuperset(big), list(big)[:6], [k in big for k in keys[:50]], a.union(big) == a, a.intersection(big) == big, a.difference(big) == a - big, a.symmetric_difference(big) == a ^ big))\n    return out", g)
			p.w("%s_res = %s_sets(%d, %d)\n%s_res2 = %s_sets(%d, %d)", g, g, n, salt, g, g, 40+p.r.Intn(60), salt+1)
		}})
}

var errorEndings = []func(p *pg, g string){
	func(p *pg, g string) {
		p.w("def %s_inner(d): return d[\"missing_key_with_a_long_name\"]\ndef %s_outer(d): return [%s_inner(d) for _ in range(1)]\n%s_outer({\"some_other_long_key\": 1, \"and_another_long_key\": 2})", g, g, g, g)
	},
	func(p *pg, g string) {
		p.w("def %s_f(d): fail(\"bad dict:\", d, set([\"failing_set_member_one\", \"failing_set_member_two\"]))\n%s_f({\"failure_key_long_one\": 1, \"failure_key_long_two\": [2]})", g, g)
	},
	func(p *pg, g string) {
		p.w("%s_s = struct(first_field_name = 1, second_field_name = 2, third_field_nam = 3)\ndef %s_g(): return %s_s.third_field_name\n%s_g()", g, g, g, g)
	},
	func(p *pg, g string) {
		p.w("def %s_f(alpha_parameter, beta_parameter = 2, *, gamma_parameter = 3): return alpha_parameter\n%s_f(1, gama_parameter = 4)", g, g)
	},
	func(p *pg, g string) {
		p.w("%s_l = sorted([\"b\", \"a\"], key = lambda x: {}[x + \"_missing_sort_key_long\"])", g)
	},
	func(p *pg, g string) {
		p.w("%s_d = {}\ndef %s_mut():\n    for k in %s_d: %s_d[k + \"_x\"] = 1\n%s_d[\"seed_key_long_name_here\"] = 0\n%s_mut()", g, g, g, g, g, g)
	},
	func(p *pg, g string) { p.w("%s_x = {[1]: 2}", g) },
	func(p *pg, g string) { p.w("%s_x = \"\".nosuchmethod_joinx()", g) },
	func(p *pg, g string) { // a lookup that failed before in this program / process fails the same way again
		p.w("%s_ok = [time.is_valid_timezone(\"Atlantis/Lost_City\") for _ in range(3)]\ndef %s_f(): return time.parse_time(\"2020-01-02T03:04:05Z\", location = \"Atlantis/Lost_City\")\n%s_f()", g, g, g)
	},
	func(p *pg, g string) {
		p.w("%s_ok = time.is_valid_timezone(\"Nowhere/Land_Of\")\ndef %s_f(): return time.time(year = 2020, location = \"Nowhere/Land_Of\")\n%s_f()", g, g, g)
	},
	func(p *pg, g string) {
		p.w("%s_ok = time.is_valid_timezone(\"Void/Zone_X\")\ndef %s_f(): return time.now().in_location(\"Void/Zone_X\")\n%s_f()", g, g, g)
	},
	func(p *pg, g string) { p.w("%s_x = json.decode('{\"a\": [1, 2,, 3]}')", g) },
	func(p *pg, g string) {
		p.w("def %s_r(n): return %s_r2(n)\ndef %s_r2(n): return 1 // (n - n)\n%s_r(3)", g, g, g, g)
	},
	func(p *pg, g string) { p.w("%s_x = undefined_global_nam", g) }, // static error with spell check
	func(p *pg, g string) { // misspelt attribute with several equally close candidates: which one does the hint name?
		p.w("def %s_attr(t): return t.yeour\n%s_attr(time.now())", g, g)
	},
	func(p *pg, g string) {
		p.w("def %s_attr(d): return d.minuts + d.secnds\n%s_attr(time.parse_duration(\"1h\"))", g, g)
	},
	func(p *pg, g string) { p.w("def %s_attr(x): return x.apend\n%s_attr([]) ", g, g) },
	func(p *pg, g string) { // the callee fails before its first instruction (argument binding), several frames deep
		p.w("def %s_target(alpha_parameter, beta_parameter):\n    a = alpha_parameter\n    b = beta_parameter\n    c = [a, b]\n    d = {a: b}\n    e = (c, d)\n    return e\ndef %s_l1(n):\n    x = n\n    y = x + 1\n    return %s_target(y)\ndef %s_l2(n):\n    p = 1\n    return [%s_l1(k) for k in [n]]\ndef %s_l3(n):\n    q = 2\n    return (lambda m: %s_l2(m))(n)\n%s_l3(1)", g, g, g, g, g, g, g, g)
	},
	func(p *pg, g string) {
		p.w("def %s_target(a, b = 1, *, c):\n    x = a\n    y = b\n    z = c\n    return (x, y, z)\ndef %s_mid(f):\n    u = 0\n    v = 1\n    return f(1, 2, 3)\ndef %s_top():\n    w = 5\n    return sorted([2, 1], key = lambda k: %s_mid(%s_target))\n%s_top()", g, g, g, g, g, g)
	},
	func(p *pg, g string) { // the 'called recursively' check fires before the callee runs
		p.w("def %s_rec(n):\n    a = n\n    b = a + 1\n    c = b + 1\n    if n > 3: return c\n    return %s_help(n + 1)\ndef %s_help(n):\n    s = n\n    t = s\n    return %s_rec(t)\n%s_rec(0)", g, g, g, g, g)
	},
	func(p *pg, g string) { // several different keyword names supplied twice: which one does the message quote?
		p.w("def %s_build():\n    return dict(alpha_keyword_one = 1, beta_keyword_two = 2, gamma_keyword_three = 3, **{\"gamma_keyword_three\": 4, \"beta_keyword_two\": 5, \"alpha_keyword_one\": 6})\n%s_build()", g, g)
	},
	func(p *pg, g string) {
		p.w("%s_d = {}\ndef %s_upd():\n    %s_d.update([(\"pair_key_long_name\", 1)], zeta_keyword = 1, eta_keyword = 2, theta_keyword = 3, **{\"theta_keyword\": 4, \"zeta_keyword\": 5, \"eta_keyword\": 6})\n%s_upd()", g, g, g, g)
	},
	func(p *pg, g string) {
		p.w("def %s_callee(first_parameter = 0, second_parameter = 0, third_parameter = 0): return 0\ndef %s_caller():\n    return %s_callee(first_parameter = 1, second_parameter = 2, **{\"second_parameter\": 3, \"first_parameter\": 4})\n%s_caller()", g, g, g, g)
	},
	func(p *pg, g string) { // a long function failing near its end: its line table is decoded lazily, on the first position lookup
		var b strings.Builder
		for i := 0; i < 300; i++ {
			fmt.Fprintf(&b, "    x = x + %d\n", i%7)
		}
		p.w("def %s_long(d):\n    x = 0\n%s    return d[\"missing_key_at_the_end_of_a_long_function\"] + x\ndef %s_mid(d): return %s_long(d)\n%s_mid({\"present_key_long_name\": 1})", g, b.String(), g, g, g)
	},
	func(p *pg, g string) { p.w("a, b = {\"only_one_long_key_name\": 1}") },
}

func identOnly(r rune) rune {
	if r == '_' || r >= 'a' && r <= 'z' || r >= '0' && r <= '9' {
		return r
	}
	return 'x'
}

type program struct {
	Src   string
	Tags  []string
	Opts  int
	Index int64
}

func genProgram(seed uint64, i int64) program {
	r := hx.NewRand(seed*999983 + uint64(i)).Split() // Split: consecutive seeds of hx.NewRand are shifted copies of one stream
	p := &pg{r: r}
	nb := 2 + r.Intn(4)
	var tags []string
	for k := 0; k < nb; k++ {
		bi := r.Intn(len(blocks))
		if r.Intn(4) == 0 {
			bi = len(blocks) - 1 - r.Intn(3) // the big dict / deep keys / big set blocks are over-weighted
		}
		if i < int64(len(blocks)) && k == 0 {
			bi = int(i) // every block kind appears
		}
		b := blocks[bi]
		b.gen(p, fmt.Sprintf("%s%d", b.tag, k))
		tags = append(tags, b.tag)
	}
	if r.Intn(3) == 0 {
		errorEndings[r.Intn(len(errorEndings))](p, "err")
		tags = append(tags, "error")
	}
	opts := 1 | 8 // Set, GlobalReassign
	if r.Bool() {
		opts |= 4 | 2
	}
	if r.Bool() {
		opts |= 32
	}
	return program{Src: p.b.String(), Tags: tags, Opts: opts, Index: i}
}

var modSources = []string{
	"exported_dict = {\"module_level_key_one\": [1], \"module_level_key_two\": {\"z\": 1, \"a\": 2}}\ndef exported_func(d): return sorted(d) + list(d.values())\n",
	"exported_dict = dict([(\"k%d_long_key_in_module\" % i, i) for i in range(20)])\ndef exported_func(d): return {v: k for k, v in d.items()}\n",
	"exported_dict = {w: len(w) for w in [\"pluto_dwarf_planet_x\", \"ceres_asteroid_belt\", \"eris_scattered_disc\"]}\ndef exported_func(d): return str(d)\n",
}
