package main

// c03 ops: random operation histories run on the REAL starlark.Dict (public
// API), the real struct / module attribute listings (built from Go maps) and
// the real hash() built-in; the observations are evaluated against the Coq
// machine of coq/C03/Model.v (under two different environments) and against
// the specification machine of Spec.v by checks/c03.py.
import (
	"flag"
	"fmt"
	"unicode/utf8"

	"go.starlark.net/starlark"
	"go.starlark.net/starlarkstruct"

	"verifharness/internal/hx"
)

type opRec struct {
	Op    string   `json:"op"`
	K     string   `json:"k,omitempty"`
	V     int64    `json:"v,omitempty"`
	Names []string `json:"names,omitempty"`
	Runes []int32  `json:"runes,omitempty"`
}

type evRec struct {
	Kind string   `json:"kind"` // val item keys num
	Has  bool     `json:"has,omitempty"`
	V    string   `json:"v,omitempty"`
	K    string   `json:"k,omitempty"`
	Keys []string `json:"keys,omitempty"`
}

func opsMain(args []string) {
	fs := flag.NewFlagSet("ops", flag.ExitOnError)
	seed := fs.Uint64("seed", 1, "")
	n := fs.Int("n", 200, "")
	fs.Parse(args)
	thread := &starlark.Thread{Name: "ops"}
	for h := 0; h < *n; h++ {
		r := hx.NewRand(*seed*31337 + uint64(h)).Split()
		d := starlark.NewDict(0)
		nk := 3 + r.Intn(30)
		keys := make([]string, nk)
		for i := range keys {
			keys[i] = wordPool[r.Intn(len(wordPool))]
			if r.Intn(3) == 0 {
				keys[i] = fmt.Sprintf("%s_%d", keys[i], r.Intn(40))
			}
		}
		nops := 5 + r.Intn(60)
		var ops []opRec
		var evs []evRec
		for j := 0; j < nops; j++ {
			k := keys[r.Intn(nk)]
			switch c := r.Intn(20); {
			case c < 8:
				v := int64(r.Intn(1000))
				d.SetKey(starlark.String(k), starlark.MakeInt64(v))
				ops = append(ops, opRec{Op: "set", K: k, V: v})
				evs = append(evs, evRec{Kind: "val"})
			case c < 10:
				v, found, _ := d.Get(starlark.String(k))
				ops = append(ops, opRec{Op: "get", K: k})
				e := evRec{Kind: "val", Has: found}
				if found {
					e.V = v.String()
				}
				evs = append(evs, e)
			case c < 13:
				v, found, _ := d.Delete(starlark.String(k))
				ops = append(ops, opRec{Op: "del", K: k})
				e := evRec{Kind: "val", Has: found}
				if found {
					e.V = v.String()
				}
				evs = append(evs, e)
			case c < 14:
				m, _ := d.Attr("popitem")
				res, err := starlark.Call(thread, m, nil, nil)
				ops = append(ops, opRec{Op: "popitem"})
				e := evRec{Kind: "item"}
				if err == nil {
					t := res.(starlark.Tuple)
					e.Has = true
					e.K = string(t[0].(starlark.String))
					e.V = t[1].String()
				}
				evs = append(evs, e)
			case c < 16:
				ops = append(ops, opRec{Op: "iter"})
				var ks []string
				for _, kk := range d.Keys() {
					ks = append(ks, string(kk.(starlark.String)))
				}
				evs = append(evs, evRec{Kind: "keys", Keys: ks})
			case c < 17:
				ops = append(ops, opRec{Op: "len"})
				evs = append(evs, evRec{Kind: "num", V: fmt.Sprint(d.Len())})
			case c < 18 && r.Intn(4) == 0:
				d.Clear()
				ops = append(ops, opRec{Op: "clear"})
				evs = append(evs, evRec{Kind: "val"})
			case c < 19:
				// attribute listing built from a Go map: module members (StringDict.Keys)
				// and struct from a StringDict (FromStringDict)
				m := starlark.StringDict{}
				var names []string
				for _, w := range keys[:1+r.Intn(nk)] {
					if _, dup := m[w]; !dup {
						m[w] = starlark.None
						names = append(names, w)
					}
				}
				if r.Bool() {
					ops = append(ops, opRec{Op: "listing", Names: names})
					evs = append(evs, evRec{Kind: "keys", Keys: (&starlarkstruct.Module{Name: "m", Members: m}).AttrNames()})
				} else {
					ops = append(ops, opRec{Op: "struct", Names: names})
					evs = append(evs, evRec{Kind: "keys", Keys: starlarkstruct.FromStringDict(starlarkstruct.Default, m).AttrNames()})
				}
			default:
				if !utf8.ValidString(k) {
					continue
				}
				if r.Bool() {
					res, err := starlark.Call(thread, starlark.Universe["hash"], starlark.Tuple{starlark.String(k)}, nil)
					if err != nil {
						panic(err)
					}
					ops = append(ops, opRec{Op: "hashstr", Runes: []int32(string2runes(k))})
					evs = append(evs, evRec{Kind: "num", V: res.String()})
				} else {
					res, err := starlark.Call(thread, starlark.Universe["hash"], starlark.Tuple{starlark.Bytes(k)}, nil)
					if err != nil {
						panic(err)
					}
					ops = append(ops, opRec{Op: "hashbytes", K: k})
					evs = append(evs, evRec{Kind: "num", V: res.String()})
				}
			}
		}
		hx.Emit(map[string]any{"kind": "history", "i": h, "ops": ops, "obs": evs})
	}
	hx.Flush()
}

func string2runes(s string) []rune { return []rune(s) }
