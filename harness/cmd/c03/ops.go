package main

// c03 ops: random operation histories run on the REAL starlark.Dict (public
// API), the real struct / module attribute listings (built from Go maps) and
// the real hash() built-in; the observations are evaluated against the Coq
// machine of coq/C03/Model.v (under two different environments) and against
// the specification machine of Spec.v by checks/c03.py.
import (
	"flag"
	"fmt"
	"unicode/utf8"

	"go.starlark.net/starlark"
	"go.starlark.net/starlarkstruct"
	"go.starlark.net/syntax"

	"verifharness/internal/hx"
)

type opRec struct {
	Op    string   `json:"op"`
	K     string   `json:"k,omitempty"`
	V     int64    `json:"v,omitempty"`
	Names []string `json:"names,omitempty"`
	Runes []int32  `json:"runes,omitempty"`
}

type evRec struct {
	Kind string   `json:"kind"` // val item keys num
	Has  bool     `json:"has,omitempty"`
	V    string   `json:"v,omitempty"`
	K    string   `json:"k,omitempty"`
	Keys []string `json:"keys,omitempty"`
}

func opsMain(args []string) {
	fs := flag.NewFlagSet("ops", flag.ExitOnError)
	seed := fs.Uint64("seed", 1, "")
	n := fs.Int("n", 200, "")
	big := fs.Int("big", 0, "big dict / set trials checked against a naive oracle in Go")
	fs.Parse(args)
	if *big > 0 {
		bigOracle(*seed, *big)
	}
	thread := &starlark.Thread{Name: "ops"}
	for h := 0; h < *n; h++ {
		r := hx.NewRand(*seed*31337 + uint64(h)).Split()
		d := starlark.NewDict(0)
		nk := 3 + r.Intn(30)
		keys := make([]string, nk)
		for i := range keys {
			keys[i] = wordPool[r.Intn(len(wordPool))]
			if r.Intn(3) == 0 {
				keys[i] = fmt.Sprintf("%s_%d", keys[i], r.Intn(40))
			}
		}
		nops := 5 + r.Intn(60)
		var ops []opRec
		var evs []evRec
		for j := 0; j < nops; j++ {
			k := keys[r.Intn(nk)]
			switch c := r.Intn(20); {
			case c < 8:
				v := int64(r.Intn(1000))
				d.SetKey(starlark.String(k), starlark.MakeInt64(v))
				ops = append(ops, opRec{Op: "set", K: k, V: v})
				evs = append(evs, evRec{Kind: "val"})
			case c < 10:
				v, found, _ := d.Get(starlark.String(k))
				ops = append(ops, opRec{Op: "get", K: k})
				e := evRec{Kind: "val", Has: found}
				if found {
					e.V = v.String()
				}
				evs = append(evs, e)
			case c < 13:
				v, found, _ := d.Delete(starlark.String(k))
				ops = append(ops, opRec{Op: "del", K: k})
				e := evRec{Kind: "val", Has: found}
				if found {
					e.V = v.String()
				}
				evs = append(evs, e)
			case c < 14:
				m, _ := d.Attr("popitem")
				res, err := starlark.Call(thread, m, nil, nil)
				ops = append(ops, opRec{Op: "popitem"})
				e := evRec{Kind: "item"}
				if err == nil {
					t := res.(starlark.Tuple)
					e.Has = true
					e.K = string(t[0].(starlark.String))
					e.V = t[1].String()
				}
				evs = append(evs, e)
			case c < 16:
				ops = append(ops, opRec{Op: "iter"})
				var ks []string
				for _, kk := range d.Keys() {
					ks = append(ks, string(kk.(starlark.String)))
				}
				evs = append(evs, evRec{Kind: "keys", Keys: ks})
			case c < 17:
				ops = append(ops, opRec{Op: "len"})
				evs = append(evs, evRec{Kind: "num", V: fmt.Sprint(d.Len())})
			case c < 18 && r.Intn(4) == 0:
				d.Clear()
				ops = append(ops, opRec{Op: "clear"})
				evs = append(evs, evRec{Kind: "val"})
			case c < 19:
				// attribute listing built from a Go map: module members (StringDict.Keys)
				// and struct from a StringDict (FromStringDict)
				m := starlark.StringDict{}
				var names []string
				for _, w := range keys[:1+r.Intn(nk)] {
					if _, dup := m[w]; !dup {
						m[w] = starlark.None
						names = append(names, w)
					}
				}
				if r.Bool() {
					ops = append(ops, opRec{Op: "listing", Names: names})
					evs = append(evs, evRec{Kind: "keys", Keys: (&starlarkstruct.Module{Name: "m", Members: m}).AttrNames()})
				} else {
					ops = append(ops, opRec{Op: "struct", Names: names})
					evs = append(evs, evRec{Kind: "keys", Keys: starlarkstruct.FromStringDict(starlarkstruct.Default, m).AttrNames()})
				}
			default:
				if !utf8.ValidString(k) {
					continue
				}
				if r.Bool() {
					res, err := starlark.Call(thread, starlark.Universe["hash"], starlark.Tuple{starlark.String(k)}, nil)
					if err != nil {
						panic(err)
					}
					ops = append(ops, opRec{Op: "hashstr", Runes: []int32(string2runes(k))})
					evs = append(evs, evRec{Kind: "num", V: res.String()})
				} else {
					res, err := starlark.Call(thread, starlark.Universe["hash"], starlark.Tuple{starlark.Bytes(k)}, nil)
					if err != nil {
						panic(err)
					}
					ops = append(ops, opRec{Op: "hashbytes", K: k})
					evs = append(evs, evRec{Kind: "num", V: res.String()})
				}
			}
		}
		hx.Emit(map[string]any{"kind": "history", "i": h, "ops": ops, "obs": evs})
	}
	hx.Flush()
}

func string2runes(s string) []rune { return []rune(s) }

// bigOracle: dicts and sets of hundreds of long-string keys (several table
// doublings, overflow bucket chains) against a naive oracle written here: an
// insertion-ordered slice and a Go map.  The volume is too large for the Coq
// evaluation; the Coq-sized histories above cross-check the same specification.
func bigOracle(seed uint64, trials int) {
	thread := &starlark.Thread{Name: "big"}
	bad := 0
	report := func(what, detail string) {
		if bad < 20 {
			hx.Emit(map[string]any{"kind": "bigmismatch", "what": what, "detail": detail})
		}
		bad++
	}
	for t := 0; t < trials; t++ {
		r := hx.NewRand(seed*77773 + uint64(t)).Split()
		n := 20 + r.Intn(380)
		keys := make([]string, n)
		for i := range keys {
			keys[i] = fmt.Sprintf("big_key_%d_%d_with_long_suffix", t, r.Intn(1000000))
		}
		// ---- dict
		d := starlark.NewDict(0)
		val := map[string]int{}
		var order []string
		del := func(k string) {
			if _, ok := val[k]; ok {
				delete(val, k)
				for i, o := range order {
					if o == k {
						order = append(order[:i], order[i+1:]...)
						break
					}
				}
			}
		}
		for i, k := range keys {
			if _, ok := val[k]; !ok {
				order = append(order, k)
			}
			val[k] = i
			d.SetKey(starlark.String(k), starlark.MakeInt(i))
			v, found, _ := d.Get(starlark.String(k))
			if !found || v.String() != fmt.Sprint(i) {
				report("dict:get-after-set", fmt.Sprintf("trial %d: after d[%q]=%d (entry #%d) lookup gives found=%v value=%v", t, k, i, len(order), found, v))
			}
			if d.Len() != len(order) {
				report("dict:len", fmt.Sprintf("trial %d: len %d after %d distinct insertions", t, d.Len(), len(order)))
			}
			if r.Intn(5) == 0 {
				k2 := keys[r.Intn(i+1)]
				_, found, _ := d.Delete(starlark.String(k2))
				_, want := val[k2]
				if found != want {
					report("dict:delete", fmt.Sprintf("trial %d: delete %q found=%v want %v", t, k2, found, want))
				}
				del(k2)
			}
		}
		for _, k := range keys {
			_, found, _ := d.Get(starlark.String(k))
			if _, want := val[k]; found != want {
				report("dict:membership", fmt.Sprintf("trial %d: %q in d = %v, want %v (len %d)", t, k, found, want, d.Len()))
			}
		}
		got := d.Keys()
		if len(got) != len(order) {
			report("dict:keys-len", fmt.Sprintf("trial %d: %d keys, want %d", t, len(got), len(order)))
		} else {
			for i := range got {
				if string(got[i].(starlark.String)) != order[i] {
					report("dict:iteration-order", fmt.Sprintf("trial %d: key #%d is %v, want %q", t, i, got[i], order[i]))
					break
				}
			}
		}
		// ---- sets
		a := starlark.NewSet(0)
		var allKeys []starlark.Value
		for _, k := range keys {
			a.Insert(starlark.String(k))
			allKeys = append(allKeys, starlark.String(k))
		}
		for q := 0; q < 12; q++ {
			lo := r.Intn(n)
			hi := lo + 1 + r.Intn(n-lo)
			b := starlark.NewSet(0)
			sub := true
			var list []starlark.Value
			for _, k := range keys[lo:hi] {
				b.Insert(starlark.String(k))
				list = append(list, starlark.String(k))
			}
			if r.Intn(3) == 0 {
				x := fmt.Sprintf("not_a_member_%d_%d_long_enough", t, q)
				b.Insert(starlark.String(x))
				list = append(list, starlark.String(x))
				sub = false
			}
			proper := sub && b.Len() < a.Len()
			check := func(what string, got bool, err error, want bool) {
				if err != nil || got != want {
					report("set:"+what, fmt.Sprintf("trial %d: |a|=%d |b|=%d: %s = %v (err %v), want %v", t, a.Len(), b.Len(), what, got, err, want))
				}
			}
			le, err := starlark.Compare(syntax.LE, b, a)
			check("b<=a", le, err, sub)
			lt, err := starlark.Compare(syntax.LT, b, a)
			check("b<a", lt, err, proper)
			ge, err := starlark.Compare(syntax.GE, a, b)
			check("a>=b", ge, err, sub)
			eq, err := starlark.Compare(syntax.EQL, a, b)
			check("a==b", eq, err, sub && b.Len() == a.Len())
			for _, m := range []struct {
				recv *starlark.Set
				name string
				arg  starlark.Value
				want bool
			}{{b, "issubset", a, sub}, {a, "issuperset", b, sub}, {b, "issubset", starlark.NewList(allKeys), sub}, {a, "issuperset", starlark.NewList(list), sub}} {
				fn, _ := m.recv.Attr(m.name)
				res, err := starlark.Call(thread, fn, starlark.Tuple{m.arg}, nil)
				check(m.name, res == starlark.True, err, m.want)
			}
			inter, _ := a.Intersection(b.Iterate())
			wantInter := b.Len()
			if !sub {
				wantInter--
			}
			if inter.(*starlark.Set).Len() != wantInter {
				report("set:intersection", fmt.Sprintf("trial %d: |a&b| = %d, want %d", t, inter.(*starlark.Set).Len(), wantInter))
			}
		}
	}
	hx.Emit(map[string]any{"kind": "bigsummary", "trials": trials, "mismatches": bad})
}
