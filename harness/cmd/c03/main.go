// c03: "execution is deterministic".
//
//	c03 ranges -repo DIR             every `for ... := range <map>` of the anchored files, classified (go/ast)
//	c03 ops -seed N -n N             operation histories on the real Dict / struct / module / hash(): observations for the Coq model
//	c03 run -seed N -n N -k K -g G   generated programs: K fresh processes (new hash seed each), repeated in one
//	                                 process, and on G concurrent goroutines; canonical transcripts compared
//	c03 child ...                    (internal)
package main

import (
	"bufio"
	"bytes"
	"crypto/sha256"
	"encoding/hex"
	"encoding/json"
	"flag"
	"fmt"
	"os"
	"os/exec"
	"sort"
	"strings"
	"sync"
	"time"

	sjson "go.starlark.net/lib/json"
	smath "go.starlark.net/lib/math"
	stime "go.starlark.net/lib/time"
	"go.starlark.net/starlark"
	"go.starlark.net/starlarkstruct"
	"go.starlark.net/syntax"

	"verifharness/internal/hx"
)

func main() {
	if len(os.Args) < 2 {
		fmt.Fprintln(os.Stderr, "usage: c03 ranges|ops|run|child ...")
		os.Exit(2)
	}
	switch os.Args[1] {
	case "ranges":
		rangesMain(os.Args[2:])
	case "ops":
		opsMain(os.Args[2:])
	case "run":
		runMain(os.Args[2:])
	case "child":
		childMain(os.Args[2:])
	default:
		os.Exit(2)
	}
}

// ------------------------------------------------------------- one execution

var fixedNow = time.Date(2024, 2, 29, 12, 34, 56, 789, time.UTC)

func fileOptions(bits int) *syntax.FileOptions {
	return &syntax.FileOptions{
		Set: bits&1 != 0, While: bits&2 != 0, TopLevelControl: bits&4 != 0,
		GlobalReassign: bits&8 != 0, LoadBindsGlobally: bits&16 != 0, Recursion: bits&32 != 0,
	}
}

// serialise writes a value with every iteration order spelled out.
func serialise(b *strings.Builder, v starlark.Value, depth int) {
	if depth > 6 {
		b.WriteString("<deep>")
		return
	}
	switch x := v.(type) {
	case *starlark.List:
		b.WriteString("L[")
		for i := 0; i < x.Len(); i++ {
			serialise(b, x.Index(i), depth+1)
			b.WriteByte(',')
		}
		b.WriteByte(']')
	case starlark.Tuple:
		b.WriteString("T(")
		for _, e := range x {
			serialise(b, e, depth+1)
			b.WriteByte(',')
		}
		b.WriteByte(')')
	case *starlark.Dict:
		b.WriteString("D{")
		for _, it := range x.Items() {
			serialise(b, it[0], depth+1)
			b.WriteByte(':')
			serialise(b, it[1], depth+1)
			b.WriteByte(',')
		}
		b.WriteByte('}')
	case *starlark.Set:
		b.WriteString("S{")
		it := x.Iterate()
		var e starlark.Value
		for it.Next(&e) {
			serialise(b, e, depth+1)
			b.WriteByte(',')
		}
		it.Done()
		b.WriteByte('}')
	case *starlarkstruct.Struct:
		b.WriteString("struct<")
		for _, n := range x.AttrNames() { // order as exposed, not re-sorted
			a, _ := x.Attr(n)
			b.WriteString(n)
			b.WriteByte('=')
			if a == nil {
				b.WriteString("<listed by AttrNames but Attr finds nothing>")
			} else {
				serialise(b, a, depth+1)
			}
			b.WriteByte(',')
		}
		b.WriteByte('>')
	case *starlarkstruct.Module:
		b.WriteString("module<" + strings.Join(x.AttrNames(), ",") + ">")
	case *starlark.Function:
		b.WriteString("fn:" + x.Name())
	case *starlark.Builtin:
		b.WriteString("builtin:" + x.Name())
		if r := x.Receiver(); r != nil {
			b.WriteString("@" + r.Type())
		}
	default:
		b.WriteString(v.Type() + ":" + v.String())
	}
}

var predeclared = starlark.StringDict{"struct": starlark.NewBuiltin("struct", starlarkstruct.Make), "json": sjson.Module, "math": smath.Module, "time": stime.Module}

func transcript(p program) string { return transcriptOf(p, nil, false) }

// a Thread that has already run something: nested calls of multi-line functions to depth 8, and a failed call
const warmSrc = `
def w_leaf(n):
    a = n + 1
    b = a * 2
    c = [a, b]
    d = {a: b}
    e = (c, d)
    return len(e) + n
def w_node(n):
    x = 0
    y = 1
    z = 2
    if n == 0:
        return w_leaf(n)
    return w_down(n - 1) + x + y + z
def w_down(n):
    return [w_mid(k) for k in [n]][0]
def w_mid(n):
    p = 1
    q = 2
    return (lambda m: w_node2(m))(n) + p + q
def w_node2(n):
    u = 3
    v = 4
    return w_leaf(n) if n == 0 else w_node3(n - 1) + u + v
def w_node3(n):
    i = 5
    j = 6
    return w_leaf(n) if n <= 0 else w_node4(n - 1) + i + j
def w_node4(n):
    r = 7
    s = 8
    return w_leaf(n) + r + s
w_result = w_node(3) + w_node(1)
w_sorted = sorted([3, 1, 2], key = lambda t: w_leaf(t))
`

// transcriptOf runs p; with a non-nil prog the already compiled (shared) Program is
// initialised instead of compiling again; with warm the Thread has executed an
// unrelated program before (a reused thread must behave like a fresh one).
func transcriptOf(p program, prog *starlark.Program, warm bool) string {
	var out strings.Builder
	modCache := map[string]starlark.StringDict{}
	thread := &starlark.Thread{Name: "c03"}
	thread.Print = func(_ *starlark.Thread, msg string) { out.WriteString("print: " + msg + "\n") }
	pre := predeclared
	thread.Load = func(t *starlark.Thread, module string) (starlark.StringDict, error) {
		if g, ok := modCache[module]; ok {
			return g, nil
		}
		var idx int
		fmt.Sscanf(module, "mod_%d.star", &idx)
		t2 := &starlark.Thread{Name: "load"}
		g, err := starlark.ExecFileOptions(fileOptions(1), t2, module, modSources[idx%len(modSources)], pre)
		modCache[module] = g
		return g, err
	}
	stime.SetNow(thread, func() (time.Time, error) { return fixedNow, nil })
	var steps0 uint64
	if warm {
		pr := thread.Print
		thread.Print = func(*starlark.Thread, string) {}
		if _, err := starlark.ExecFileOptions(fileOptions(1|8|4|2), thread, "warm.star", warmSrc, pre); err != nil {
			panic("warm-up program failed: " + err.Error())
		}
		starlark.ExecFileOptions(fileOptions(1), thread, "warm2.star", "def wf(a, b):\n    x = a\n    y = b\n    return x + y\ndef wg(): return wf(1)\nwg()\n", pre) // ends in an error
		thread.Print = pr
		steps0 = thread.ExecutionSteps()
	}
	thread.SetMaxExecutionSteps(steps0 + 2000000)
	var globals starlark.StringDict
	var err error
	if prog != nil {
		globals, err = prog.Init(thread, pre)
		globals.Freeze()
	} else {
		globals, err = starlark.ExecFileOptions(fileOptions(p.Opts), thread, "prog.star", p.Src, pre)
	}
	if err != nil {
		out.WriteString("error: " + err.Error() + "\n")
		if ee, ok := err.(*starlark.EvalError); ok {
			out.WriteString("backtrace: " + strings.ReplaceAll(ee.Backtrace(), "\n", " | ") + "\n")
		}
	}
	fmt.Fprintf(&out, "steps: %d\n", thread.ExecutionSteps()-steps0)
	for _, name := range globals.Keys() {
		v := globals[name]
		var b strings.Builder
		serialise(&b, v, 0)
		out.WriteString("global " + name + " = " + b.String() + "\n")
		out.WriteString("string " + name + " = " + v.String() + "\n")
		if ha, ok := v.(starlark.HasAttrs); ok {
			out.WriteString("attrs " + name + ": " + strings.Join(ha.AttrNames(), ",") + "\n") // raw order, as exposed to the host
		}
	}
	out.WriteString("globals-string: " + globals.String() + "\n")
	return out.String()
}

func digest(s string) string {
	h := sha256.Sum256([]byte(s))
	return hex.EncodeToString(h[:8])
}

// ---------------------------------------------------------------------- child

func childMain(args []string) {
	fs := flag.NewFlagSet("child", flag.ExitOnError)
	seed := fs.Uint64("seed", 1, "")
	lo := fs.Int64("lo", 0, "")
	hi := fs.Int64("hi", 0, "")
	full := fs.Bool("full", false, "print the transcripts themselves")
	multi := fs.Bool("multi", false, "also repeat in this process and on goroutines")
	g := fs.Int("g", 4, "")
	fs.Parse(args)
	w := bufio.NewWriterSize(os.Stdout, 1<<20)
	defer w.Flush()
	enc := json.NewEncoder(w)
	// probes: programs that expose the Go-level attribute listing and the spelling hints of a value of every
	// built-in type WITHOUT calling dir() themselves; run before anything else and again after everything else
	probes := []program{
		{Src: "p_time = time.now()\np_dur = time.hour\np_str = \"s\"\np_bytes = b\"b\"\np_list = []\np_dict = {}\np_set = set()\np_struct = struct(zeta_field = 1, alpha_field = 2)\np_mod = (json, math, time)\np_has = [hasattr(x, \"year\") for x in (p_time, p_dur, p_list)]\n", Opts: 1},
		{Src: "def f(t): return t.yeour\nf(time.now())\n", Opts: 1},
		{Src: "def f(d): return d.minuts\nf(time.hour)\n", Opts: 1},
		{Src: "def f(s): return s.uper_x\nf(struct(upper_a = 1, upper_b = 2))\n", Opts: 1},
	}
	var probeT []string
	if *multi {
		for _, p := range probes {
			probeT = append(probeT, transcript(p))
		}
	}
	seqT := map[int64]string{}
	for i := *lo; i < *hi; i++ {
		p := genProgram(*seed, i)
		t := transcript(p)
		seqT[i] = t
		rec := map[string]any{"kind": "t", "i": i, "h": digest(t)}
		if *full {
			rec["t"] = t
		}
		enc.Encode(rec)
		if *multi {
			for rep := 0; rep < 1; rep++ {
				if t2 := transcript(p); t2 != t {
					enc.Encode(map[string]any{"kind": "diverge", "where": "repeat", "i": i, "a": t, "b": t2})
					break
				}
			}
		}
	}
	if *multi {
		// every program again AFTER all the others have run in this process (state that one
		// execution leaves behind -- caches, lists sorted in place -- must not change another),
		// and on a Thread that has executed something else before
		for k, p := range probes {
			if t2 := transcript(p); t2 != probeT[k] {
				enc.Encode(map[string]any{"kind": "diverge", "where": "after-other-programs", "i": -1, "a": probeT[k], "b": t2, "program": p.Src})
				break
			}
		}
		for i := *hi - 1; i >= *lo; i-- {
			p := genProgram(*seed, i)
			if t2 := transcript(p); t2 != seqT[i] {
				enc.Encode(map[string]any{"kind": "diverge", "where": "after-other-programs", "i": i, "a": seqT[i], "b": t2})
				break
			}
		}
		for i := *lo; i < *hi; i++ {
			p := genProgram(*seed, i)
			if t2 := transcriptOf(p, nil, true); t2 != seqT[i] {
				enc.Encode(map[string]any{"kind": "diverge", "where": "reused-thread", "i": i, "a": seqT[i], "b": t2})
				break
			}
		}
		// the SAME compiled Program initialised on G goroutines at once (a Program is
		// immutable and may be shared between threads), freshly compiled for every
		// round so that lazily built tables are built under contention
		for i := *lo; i < *hi; i++ {
			p := genProgram(*seed, i)
			if len(p.Tags) == 0 || p.Tags[len(p.Tags)-1] != "error" {
				continue
			}
			for round := 0; round < 6; round++ {
				_, prog, err := starlark.SourceProgramOptions(fileOptions(p.Opts), "prog.star", p.Src, predeclared.Has)
				if err != nil {
					break // static error: nothing to share
				}
				ts := make([]string, *g)
				start := make(chan struct{})
				var wg sync.WaitGroup
				for k := 0; k < *g; k++ {
					wg.Add(1)
					go func(k int) {
						defer wg.Done()
						<-start
						ts[k] = transcriptOf(p, prog, false)
					}(k)
				}
				close(start)
				wg.Wait()
				bad := false
				for k := 0; k < *g; k++ {
					if ts[k] != seqT[i] {
						enc.Encode(map[string]any{"kind": "diverge", "where": "shared-program-goroutines", "i": i, "a": seqT[i], "b": ts[k]})
						bad = true
						break
					}
				}
				if bad {
					break
				}
			}
		}
		sharedStress(enc, *g)
		sharedFrozenStress(enc, *g)
		builtinContentionStress(enc, *g)
		// G goroutines execute different programs at the same time, several rounds;
		// each result is compared with the sequential one
		var mu sync.Mutex
		n := *hi - *lo
		var wg sync.WaitGroup
		for k := 0; k < *g; k++ {
			wg.Add(1)
			go func(k int) {
				defer wg.Done()
				for j := int64(k); j < n; j += int64(*g) { // every program once, on one of the g goroutines, while the others run other programs
					i := *lo + j
					p := genProgram(*seed, i)
					t := transcript(p)
					ref := seqT[i] // the sequential run of this process (read-only here)
					if t != ref {
						mu.Lock()
						enc.Encode(map[string]any{"kind": "diverge", "where": "goroutines", "i": i, "a": ref, "b": t})
						mu.Unlock()
					}
					mu.Lock()
					enc.Encode(map[string]any{"kind": "g", "i": i, "h": digest(t)})
					mu.Unlock()
				}
			}(k)
		}
		wg.Wait()
	}
}

// sharedStress: one large compiled program (a chain of long functions, the last
// of which fails, so that the backtrace needs a position lookup in every
// function's lazily decoded line table), reloaded from its compiled form for
// every trial (a fresh Program: nothing decoded yet) and initialised on many
// goroutines started a few microseconds apart.  Every goroutine must report the
// same error, backtrace and step count as a sequential execution.
func sharedStress(enc *json.Encoder, g int) {
	const nfuncs, lines, trials = 80, 300, 600
	var b strings.Builder
	for k := nfuncs - 1; k >= 0; k-- {
		fmt.Fprintf(&b, "def chain_function_%d(flag):\n    if flag:\n", k)
		for i := 0; i < lines; i++ {
			b.WriteString("        x = [flag, flag, flag, flag]\n")
		}
		if k == nfuncs-1 {
			b.WriteString("    return {\"only_key_with_a_long_name\": 1}[\"missing_key_with_a_long_name\"]\n\n")
		} else {
			fmt.Fprintf(&b, "    return chain_function_%d(flag)\n\n", k+1)
		}
	}
	b.WriteString("chain_function_0(False)\n")
	src := b.String()
	_, prog0, err := starlark.SourceProgramOptions(fileOptions(1), "chain.star", src, predeclared.Has)
	if err != nil {
		panic(err)
	}
	var compiled bytes.Buffer
	if err := prog0.Write(&compiled); err != nil {
		panic(err)
	}
	fresh := func() *starlark.Program {
		p, err := starlark.CompiledProgram(bytes.NewReader(compiled.Bytes()))
		if err != nil {
			panic(err)
		}
		return p
	}
	run := func(prog *starlark.Program) string {
		thread := &starlark.Thread{Name: "chain"}
		_, err := prog.Init(thread, predeclared)
		if err == nil {
			return "no error"
		}
		msg := err.Error()
		if ee, ok := err.(*starlark.EvalError); ok {
			msg = ee.Backtrace()
		}
		return fmt.Sprintf("%s\nsteps=%d", msg, thread.ExecutionSteps())
	}
	want := run(fresh())
	if g < 8 {
		g = 8
	}
	deadline := time.Now().Add(6 * time.Second)
	n := 0
	for trial := 0; trial < trials && time.Now().Before(deadline); trial++ {
		prog := fresh()
		res := make([]string, g)
		var wg sync.WaitGroup
		for i := 0; i < g; i++ {
			wg.Add(1)
			go func(i int) {
				defer wg.Done()
				time.Sleep(time.Duration(i*(trial%4)) * 20 * time.Microsecond)
				res[i] = run(prog)
			}(i)
		}
		wg.Wait()
		n++
		for _, got := range res {
			if got != want {
				enc.Encode(map[string]any{"kind": "diverge", "where": "shared-program-goroutines", "i": -1, "a": "backtrace: " + strings.ReplaceAll(want, "\n", " | "), "b": "backtrace: " + strings.ReplaceAll(got, "\n", " | "),
					"program": fmt.Sprintf("chain of %d functions of %d lines, the last one fails; trial %d", nfuncs, lines, trial)})
				return
			}
		}
	}
	enc.Encode(map[string]any{"kind": "stress", "i": -1, "trials": n})
}

// sharedFrozenStress: frozen values shared by several threads (as predeclared
// values are): some goroutines iterate over them (for loops, comprehensions,
// sorted, set algebra) while others attempt every kind of mutation and others
// only read.  The message of every failed mutation, and every value read, must be
// what a single-threaded run reports, whatever the interleaving.
func sharedFrozenStress(enc *json.Encoder, g int) {
	mk := func() starlark.StringDict {
		t := &starlark.Thread{Name: "mk"}
		gl, err := starlark.ExecFileOptions(fileOptions(1), t, "shared.star",
			"shared_list = [\"shared_list_element_%d_long\" % i for i in range(60)]\nshared_dict = {k: i for i, k in enumerate(shared_list)}\nshared_set = set(shared_list)\nshared_nested = [shared_list, shared_dict, (shared_set,)]\n", predeclared)
		if err != nil {
			panic(err)
		}
		return gl // frozen by ExecFile
	}
	iterSrc := "def it():\n    n = 0\n    for r in range(40):\n        for x in shared_list: n += len(x)\n        n += len([k for k in shared_dict]) + len(sorted(shared_set)) + len([y for y in shared_nested[0] if y])\n        for k, v in shared_dict.items(): n += v\n    return n\nresult = it()\n"
	mutators := []string{
		"shared_list.append(1)", "shared_list.clear()", "shared_list[0] = 1", "shared_list.extend([1])", "shared_list.insert(0, 1)", "shared_list.pop()", "shared_list.remove(shared_list[0])",
		"def f():\n    l = shared_list\n    l += [1]\nf()", "shared_dict[\"new_key_long_enough\"] = 1", "shared_dict.clear()", "shared_dict.pop(shared_list[0])", "shared_dict.popitem()", "shared_dict.setdefault(\"zz_long_key_name\", 1)", "shared_dict.update({\"q\": 1})",
		"shared_set.add(\"another_long_element\")", "shared_set.clear()", "shared_set.discard(shared_list[0])", "shared_set.pop()", "shared_set.remove(shared_list[0])", "shared_set.update([\"x_long_element_name\"])", "shared_nested[0].append(2)", "shared_nested.append(3)",
		"def g():\n    for x in shared_list:\n        shared_list.append(x)\ng()", "def h():\n    for k in shared_dict:\n        shared_dict[k] = 0\nh()",
	}
	run := func(shared starlark.StringDict, src string) string {
		pre := starlark.StringDict{}
		for k, v := range predeclared {
			pre[k] = v
		}
		for k, v := range shared {
			pre[k] = v
		}
		t := &starlark.Thread{Name: "shared"}
		t.SetMaxExecutionSteps(5000000)
		gl, err := starlark.ExecFileOptions(fileOptions(1|8|4), t, "s.star", src, pre)
		if err != nil {
			return "error: " + err.Error()
		}
		if r, ok := gl["result"]; ok {
			return "result: " + r.String()
		}
		return "ok"
	}
	seq := mk()
	want := map[string]string{iterSrc: run(seq, iterSrc)}
	for _, mu := range mutators {
		want[mu] = run(seq, mu)
	}
	if g < 6 {
		g = 6
	}
	deadline := time.Now().Add(5 * time.Second)
	for trial := 0; trial < 16 && time.Now().Before(deadline); trial++ {
		shared := mk()
		var wg sync.WaitGroup
		var mux sync.Mutex
		bad := ""
		for k := 0; k < g; k++ {
			wg.Add(1)
			go func(k int) {
				defer wg.Done()
				if k%2 == 0 {
					if got := run(shared, iterSrc); got != want[iterSrc] {
						mux.Lock()
						bad = "iterating program: " + got + " (sequential: " + want[iterSrc] + ")"
						mux.Unlock()
					}
					return
				}
				for rep := 0; rep < 6; rep++ {
					for _, mu := range mutators {
						if got := run(shared, mu); got != want[mu] {
							mux.Lock()
							bad = strings.ReplaceAll(mu, "\n", "; ") + " => " + got + " (sequential: " + want[mu] + ")"
							mux.Unlock()
							return
						}
					}
				}
			}(k)
		}
		wg.Wait()
		if bad != "" {
			enc.Encode(map[string]any{"kind": "diverge", "where": "shared-frozen-values", "i": -1, "a": "error: (sequential run) see b", "b": "error: " + bad,
				"program": "frozen list/dict/set shared by goroutines: half of them iterate, the others attempt mutations; trial " + fmt.Sprint(trial)})
			return
		}
	}
}

// builtinContentionStress: many goroutines call the SAME library built-ins
// (every math.* member, json, time parsing, string methods, hash, sorted ...)
// at the same time, each with its own operands; every goroutine must obtain
// what a single-threaded run of its program obtains.
func builtinContentionStress(enc *json.Encoder, g int) {
	prog := func(k int) string {
		return fmt.Sprintf(`
def work(k):
    out = []
    unary = [getattr(math, n) for n in dir(math) if n not in ("pi", "e", "pow", "mod", "atan2", "copysign", "hypot", "remainder", "log")]
    binary = [math.pow, math.mod, math.atan2, math.copysign, math.hypot, math.remainder]
    for i in range(1, 120):
        x = (i * 37 + k * 1009) %% 997 / 997.0
        for f in unary:
            out.append(f(x + (0 if f != math.acosh else 1)) if f not in (math.acosh,) else f(x + 1))
        for f in binary:
            out.append(f(x + 1, k + 2.5))
        out.append(math.log(x + 1, k + 2))
        out.append(json.decode(json.encode({"key_%%d" %% k: [i, x]})))
        out.append(time.parse_duration("%%dms" %% (i * (k + 1))))
        out.append(("%%d-%%s" %% (i, k)).upper().split("-"))
        out.append(hash("string_to_hash_%%d_%%d" %% (i, k)))
        out.append(sorted([k, i, -i], key = lambda v: v * (k + 1)))
        out.append(int("%%d" %% (i * k)) + len(str(x)))
    return out
result = work(%d)
`, k)
	}
	run := func(src string) string {
		t := &starlark.Thread{Name: "contend"}
		t.SetMaxExecutionSteps(20000000)
		gl, err := starlark.ExecFileOptions(fileOptions(1|8|4), t, "contend.star", src, predeclared)
		if err != nil {
			return "error: " + err.Error()
		}
		s := gl["result"].String()
		if os.Getenv("C03_DEBUG") != "" {
			fmt.Fprintln(os.Stderr, "contend ok", len(s))
		}
		return s
	}
	if g < 8 {
		g = 8
	}
	want := make([]string, g)
	for k := range want {
		want[k] = run(prog(k))
	}
	deadline := time.Now().Add(5 * time.Second)
	for trial := 0; trial < 12 && time.Now().Before(deadline); trial++ {
		got := make([]string, g)
		var wg sync.WaitGroup
		for k := 0; k < g; k++ {
			wg.Add(1)
			go func(k int) {
				defer wg.Done()
				got[k] = run(prog(k))
			}(k)
		}
		wg.Wait()
		for k := range got {
			if got[k] != want[k] {
				a, b := want[k], got[k]
				i := 0
				for i < len(a) && i < len(b) && a[i] == b[i] {
					i++
				}
				lo := max(0, i-60)
				enc.Encode(map[string]any{"kind": "diverge", "where": "builtins-called-concurrently", "i": -1,
					"a": "global result = ..." + a[lo:min(len(a), i+80)], "b": "global result = ..." + b[lo:min(len(b), i+80)],
					"program": prog(k)})
				return
			}
		}
	}
}

// --------------------------------------------------------------------- parent

func firstDiff(a, b string) (string, string, string) {
	la, lb := strings.Split(a, "\n"), strings.Split(b, "\n")
	for i := 0; i < len(la) || i < len(lb); i++ {
		x, y := "", ""
		if i < len(la) {
			x = la[i]
		}
		if i < len(lb) {
			y = lb[i]
		}
		if x != y {
			label := x
			if label == "" {
				label = y
			}
			f := strings.Fields(label)
			key := ""
			if len(f) > 0 {
				key = strings.TrimSuffix(f[0], ":")
				if len(f) > 1 && (key == "global" || key == "string") {
					// the generator names globals <block><n>_<what>
					name := strings.TrimSuffix(f[1], ":")
					key += ":" + strings.TrimRight(strings.SplitN(name, "_", 2)[0], "0123456789")
				}
			}
			return key, x, y
		}
	}
	return "", "", ""
}

func runChild(args []string) ([]byte, error) {
	cmd := exec.Command(os.Args[0], append([]string{"child"}, args...)...)
	var so, se bytes.Buffer
	cmd.Stdout, cmd.Stderr = &so, &se
	err := cmd.Run()
	if err != nil {
		return so.Bytes(), fmt.Errorf("%v: %s", err, tailStr(se.String(), 2000))
	}
	return so.Bytes(), nil
}

func tailStr(s string, n int) string {
	if len(s) > n {
		return s[len(s)-n:]
	}
	return s
}

func runMain(args []string) {
	fs := flag.NewFlagSet("run", flag.ExitOnError)
	seed := fs.Uint64("seed", 1, "")
	n := fs.Int64("n", 150, "")
	lo := fs.Int64("lo", 0, "first program index")
	k := fs.Int("k", 3, "fresh processes")
	g := fs.Int("g", 4, "goroutines")
	fs.Parse(args)
	type res struct {
		hashes map[int64]string
		ghash  map[int64][]string
		div    []map[string]any
		err    error
	}
	results := make([]res, *k)
	var wg sync.WaitGroup
	for c := 0; c < *k; c++ {
		wg.Add(1)
		go func(c int) {
			defer wg.Done()
			a := []string{"-seed", fmt.Sprint(*seed), "-lo", fmt.Sprint(*lo), "-hi", fmt.Sprint(*lo + *n), "-g", fmt.Sprint(*g)}
			if c == 0 {
				a = append(a, "-multi")
			}
			out, err := runChild(a)
			r := res{hashes: map[int64]string{}, ghash: map[int64][]string{}, err: err}
			for _, line := range bytes.Split(out, []byte("\n")) {
				if len(line) == 0 {
					continue
				}
				var d map[string]any
				if json.Unmarshal(line, &d) != nil {
					continue
				}
				i := int64(d["i"].(float64))
				if d["kind"] == "stress" {
					continue
				}
				switch d["kind"] {
				case "t":
					r.hashes[i] = d["h"].(string)
				case "g":
					r.ghash[i] = append(r.ghash[i], d["h"].(string))
				case "diverge":
					r.div = append(r.div, d)
				}
			}
			results[c] = r
		}(c)
	}
	wg.Wait()
	for c, r := range results {
		if r.err != nil {
			// a crash of the interpreter is C02's subject; here it is a failed run
			hx.Emit(map[string]any{"kind": "childerror", "child": c, "err": r.err.Error()})
		}
	}
	ndiv := 0
	seenKey := map[string]bool{}
	report := func(where string, i int64, a, b string) {
		var p program
		if i >= 0 {
			p = genProgram(*seed, i)
		} else {
			p = program{Src: "(a fixed program of the harness -- probe / chain / shared frozen values; see harness/cmd/c03/main.go)", Tags: []string{"fixed"}}
		}
		key, x, y := firstDiff(a, b)
		ndiv++
		if seenKey[key] {
			return
		}
		seenKey[key] = true
		hx.Emit(map[string]any{"kind": "diverge", "where": where, "i": i, "key": key, "tags": p.Tags, "program": p.Src, "opts": p.Opts,
			"line_a": trunc(x, 600), "line_b": trunc(y, 600), "seed": *seed})
	}
	for _, d := range results[0].div {
		report(d["where"].(string), int64(d["i"].(float64)), d["a"].(string), d["b"].(string))
	}
	// across processes
	var idx []int64
	for i := range results[0].hashes {
		idx = append(idx, i)
	}
	sort.Slice(idx, func(a, b int) bool { return idx[a] < idx[b] })
	fetched := 0
	for _, i := range idx {
		for c := 1; c < *k; c++ {
			if results[c].hashes[i] != results[0].hashes[i] {
				if fetched >= 12 {
					ndiv++
					break
				}
				fetched++
				// fetch two full transcripts from two fresh processes
				var ts []string
				for tries := 0; tries < 6 && len(ts) < 2; tries++ {
					out, _ := runChild([]string{"-seed", fmt.Sprint(*seed), "-lo", fmt.Sprint(i), "-hi", fmt.Sprint(i + 1), "-full"})
					var d map[string]any
					if json.Unmarshal(bytes.TrimSpace(out), &d) == nil {
						t := d["t"].(string)
						if len(ts) == 0 || t != ts[0] {
							ts = append(ts, t)
						}
					}
				}
				if len(ts) == 2 {
					report("process", i, ts[0], ts[1])
				} else {
					ndiv++
					hx.Emit(map[string]any{"kind": "diverge", "where": "process", "i": i, "key": "unreproduced", "program": genProgram(*seed, i).Src,
						"line_a": "transcript digests differed between processes but 6 further processes agreed", "line_b": "", "seed": *seed})
				}
				break
			}
		}
	}
	tagc := map[string]int{}
	errs := 0
	for _, i := range idx {
		p := genProgram(*seed, i)
		for _, t := range p.Tags {
			tagc[t]++
		}
		if len(p.Tags) > 0 && p.Tags[len(p.Tags)-1] == "error" {
			errs++
		}
	}
	sample := genProgram(*seed, *lo)
	hx.Emit(map[string]any{"kind": "summary", "programs": len(idx), "processes": *k, "goroutines": *g, "divergences": ndiv,
		"distribution": tagc, "with_error": errs, "sample_program": sample.Src, "sample_transcript": trunc(transcript(sample), 1500),
		"executions": len(idx)*(*k+2) + len(idx)})
	hx.Flush()
}

func trunc(s string, n int) string {
	if len(s) > n {
		return s[:n] + "..."
	}
	return s
}
