package main

import (
	"fmt"
	"os"
)

func main() {
	if len(os.Args) < 2 {
		fmt.Fprintln(os.Stderr, "usage: c03 ranges|run|child|ops ...")
		os.Exit(2)
	}
	switch os.Args[1] {
	case "ranges":
		rangesMain(os.Args[2:])
	default:
		os.Exit(2)
	}
}
