// Package hx holds the helpers shared by the correspondence harnesses:
// a splittable PRNG (every random choice derives from one seed, so a
// disagreement replays exactly) and a JSON-lines emitter.
package hx

import (
	"bufio"
	"encoding/json"
	"os"
)

// Rand is splitmix64.
type Rand struct{ s uint64 }

// NewRand derives the initial state from seed through the splitmix64 finaliser,
// so that NewRand(s) and NewRand(s+1) are unrelated streams (a state that is
// linear in the seed would make them the same stream shifted by one draw).
func NewRand(seed uint64) *Rand {
	z := seed + 0x1234567
	z = (z ^ (z >> 30)) * 0xBF58476D1CE4E5B9
	z = (z ^ (z >> 27)) * 0x94D049BB133111EB
	return &Rand{s: z ^ (z >> 31)}
}

func (r *Rand) Uint64() uint64 {
	r.s += 0x9E3779B97F4A7C15
	z := r.s
	z = (z ^ (z >> 30)) * 0xBF58476D1CE4E5B9
	z = (z ^ (z >> 27)) * 0x94D049BB133111EB
	return z ^ (z >> 31)
}

// Intn returns a value in [0,n).
func (r *Rand) Intn(n int) int {
	if n <= 0 {
		return 0
	}
	return int(r.Uint64() % uint64(n))
}

func (r *Rand) Int63() int64 { return int64(r.Uint64() >> 1) }

func (r *Rand) Bool() bool { return r.Uint64()&1 == 1 }

// Pick returns one of xs.
func Pick[T any](r *Rand, xs []T) T { return xs[r.Intn(len(xs))] }

// Split derives an independent generator.
func (r *Rand) Split() *Rand { return NewRand(r.Uint64()) }

var out = bufio.NewWriterSize(os.Stdout, 1<<20)

// Emit writes one JSON object on one line.
func Emit(v any) {
	b, err := json.Marshal(v)
	if err != nil {
		panic(err)
	}
	out.Write(b)
	out.WriteByte('\n')
}

func Flush() { out.Flush() }
