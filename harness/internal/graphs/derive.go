package graphs

import (
	"go.starlark.net/starlark"
	"go.starlark.net/syntax"
)

// A value computed FROM a container (a slice, a copy, a product, a sorted list,
// the items of a dict, a union ...) is a new value: mutating it must never
// change the value it was computed from.  Shared by the C04 and C05 harnesses.

// DerivExprs: expressions over x that compute a NEW value from a container of the given kind.
var DerivExprs = map[string][]string{
	"list":   {"x[:]", "x[0:len(x)]", "x[1:]", "x[:-1]", "x[::1]", "list(x)", "x + []", "[] + x", "x * 1", "1 * x", "x * 2", "(x * 1) * 1", "sorted(x, key=lambda e: 0)", "[e for e in x]", "list(reversed(x))"},
	"dict":   {"dict(x)", "x.items()", "x.keys()", "x.values()", "x | {}", "{} | x", "dict(x.items())", "{k: v for k, v in x.items()}"},
	"set":    {"set(x)", "x.union([])", "x | set()", "x & x", "x - set()", "x ^ set()", "list(x)", "sorted(x, key=lambda e: 0)"},
	"tuple":  {"list(x)", "list(x + ())", "list(x[:])", "[e for e in x]", "list(x * 1)", "list(1 * x)", "sorted(x, key=lambda e: 0)"},
	"tslice": {"list(x)", "list(x + ())", "list(x * 1)", "[e for e in x]"},
	"tcat":   {"list(x)", "list(x + ())", "list(x * 1)", "[e for e in x]"},
	"struct": {"x + x", "x + struct()"},
}

// DerivedMut: one way of mutating a derived list, dict or set.
type DerivedMut struct {
	Name string
	F    func(th *starlark.Thread, d starlark.Value)
}

func call(th *starlark.Thread, d starlark.Value, name string, args ...starlark.Value) {
	if ha, ok := d.(starlark.HasAttrs); ok {
		if m, _ := ha.Attr(name); m != nil {
			starlark.Call(th, m, starlark.Tuple(args), nil)
		}
	}
}

var big = starlark.MakeInt(999)

var DerivedMuts = []DerivedMut{
	{"d[0] = 999", func(th *starlark.Thread, d starlark.Value) {
		switch x := d.(type) {
		case *starlark.List:
			if x.Len() > 0 {
				x.SetIndex(0, big)
			}
		case *starlark.Dict:
			if ks := x.Keys(); len(ks) > 0 {
				x.SetKey(ks[0], big)
			}
		case *starlark.Set:
			x.Insert(big)
		}
	}},
	{"d[-1] = 999", func(th *starlark.Thread, d starlark.Value) {
		if x, ok := d.(*starlark.List); ok && x.Len() > 0 {
			x.SetIndex(x.Len()-1, big)
		}
	}},
	{"d.clear()", func(th *starlark.Thread, d starlark.Value) { call(th, d, "clear") }},
	{"d.pop()", func(th *starlark.Thread, d starlark.Value) {
		if _, ok := d.(*starlark.Dict); ok {
			call(th, d, "popitem")
		} else {
			call(th, d, "pop")
		}
	}},
	{"d.pop(0) / remove first", func(th *starlark.Thread, d starlark.Value) {
		switch x := d.(type) {
		case *starlark.List:
			call(th, d, "pop", starlark.MakeInt(0))
		case *starlark.Dict:
			if ks := x.Keys(); len(ks) > 0 {
				x.Delete(ks[0])
			}
		case *starlark.Set:
			it := x.Iterate()
			var k starlark.Value
			ok := it.Next(&k)
			it.Done()
			if ok {
				x.Delete(k)
			}
		}
	}},
	{"d.insert(0, 999) / add", func(th *starlark.Thread, d starlark.Value) {
		switch d.(type) {
		case *starlark.List:
			call(th, d, "insert", starlark.MakeInt(0), big)
		case *starlark.Dict:
			call(th, d, "setdefault", big, big)
		case *starlark.Set:
			call(th, d, "add", big)
		}
	}},
	{"d.append(999); d[0] = 998", func(th *starlark.Thread, d starlark.Value) {
		if x, ok := d.(*starlark.List); ok {
			x.Append(big)
			x.SetIndex(0, starlark.MakeInt(998))
		}
	}},
	{"Go Clear()", func(th *starlark.Thread, d starlark.Value) {
		switch x := d.(type) {
		case *starlark.List:
			x.Clear()
		case *starlark.Dict:
			x.Clear()
		case *starlark.Set:
			x.Clear()
		}
	}},
}

var EvalOpts = &syntax.FileOptions{Set: true}

// ReadOnlyExprs: operator and built-in expressions over a value x (and an integer
// k) that only READ x: concatenation, repetition, slicing, conversion.  Nobody
// mutates anything; x must be exactly as before, whoever evaluates them.
var ReadOnlyExprs = map[string][]string{
	"tuple":  {"x[:1] + (k,)", "x[1:2] + (k,)", "x[:-1] + (k,)", "x[:len(x)//2] + (k, k)", "x[1:-1] + (k, k, k)", "x + (k,)", "(k,) + x", "x * 2", "x * 1", "1 * x", "x[1:] + (k,)", "x[:1] + (k, k)", "(x + (k,)) + (k,)", "x + ()", "tuple(x) + (k,)"},
	"tslice": {"x[:1] + (k,)", "x[:-1] + (k, k)", "x + (k,)", "(k,) + x", "x * 2", "x * 1", "x[:1] + (k, k)", "(x + (k,)) + (k, k)", "x + ()"},
	"tcat":   {"x[:1] + (k,)", "x[1:2] + (k,)", "x[:-1] + (k, k)", "x + (k,)", "(k,) + x", "x * 2", "x * 1", "x[:1] + (k, k)", "(x + (k,)) + (k, k)", "x + ()"},
	"list":   {"x + [k]", "[k] + x", "x * 2", "x[1:] + [k]", "tuple(x) + (k,)", "sorted(x, key=lambda e: 0) + [k]"},
	"dict":   {"x | {k: k}", "{k: k} | x", "x.items() + [k]", "x.keys() + [k]"},
	"set":    {"x | set([k])", "x.union([k])", "x - set([k])", "x ^ set([k])", "sorted(x, key=lambda e: 0) + [k]"},
}

// Derive evaluates expr with x = v (and k); nil if the expression fails.
func Derive(th *starlark.Thread, expr string, v starlark.Value, k int64) starlark.Value {
	r, err := starlark.EvalOptions(EvalOpts, th, "derive", expr, starlark.StringDict{"x": v, "k": starlark.MakeInt64(k)})
	if err != nil {
		return nil
	}
	return r
}
