package graphs

import (
	"fmt"

	"go.starlark.net/starlark"
)

// Box is a HOST-DEFINED mutable value (kind "hbox"): a sequence of values with a
// frozen flag, whose only Starlark-visible member is the bound method
// box.append(v), created the way host types do it:
// NewBuiltin(...).BindReceiver(self).  It is neither a list, a dict nor a set,
// so everything that treats "the built-in mutable types" specially misses it.
type Box struct {
	elems  []starlark.Value
	frozen bool
}

var _ starlark.HasAttrs = (*Box)(nil)

func (b *Box) String() string        { return fmt.Sprintf("box(%d)", len(b.elems)) }
func (b *Box) Type() string          { return "box" }
func (b *Box) Truth() starlark.Bool  { return true }
func (b *Box) Hash() (uint32, error) { return 0, fmt.Errorf("unhashable type: box") }
func (b *Box) Elems() []starlark.Value {
	return b.elems
}
func (b *Box) Frozen() bool { return b.frozen }
func (b *Box) Freeze() {
	if !b.frozen {
		b.frozen = true
		for _, e := range b.elems {
			e.Freeze()
		}
	}
}

// Append is the Go API mutator.
func (b *Box) Append(v starlark.Value) error {
	if b.frozen {
		return fmt.Errorf("cannot append to frozen box")
	}
	b.elems = append(b.elems, v)
	return nil
}

var boxAppend = starlark.NewBuiltin("append", func(_ *starlark.Thread, fn *starlark.Builtin, args starlark.Tuple, _ []starlark.Tuple) (starlark.Value, error) {
	if len(args) != 1 {
		return nil, fmt.Errorf("append: got %d arguments, want 1", len(args))
	}
	return starlark.None, fn.Receiver().(*Box).Append(args[0])
})

func (b *Box) Attr(name string) (starlark.Value, error) {
	if name == "append" {
		return boxAppend.BindReceiver(b), nil
	}
	return nil, nil
}
func (b *Box) AttrNames() []string { return []string{"append"} }

// NoLen is a host-defined Iterable that is not a Sequence: its length is unknown.
type NoLen struct{ Vals []starlark.Value }

func (n *NoLen) String() string        { return "nolen" }
func (n *NoLen) Type() string          { return "nolen" }
func (n *NoLen) Freeze()               {}
func (n *NoLen) Truth() starlark.Bool  { return true }
func (n *NoLen) Hash() (uint32, error) { return 0, fmt.Errorf("unhashable type: nolen") }
func (n *NoLen) Iterate() starlark.Iterator {
	return starlark.NewList(append([]starlark.Value{}, n.Vals...)).Iterate()
}

// Spy is a host-defined Iterable that calls OnNext from inside every Next: an
// operation that consumes it can be observed WHILE it is running.
type Spy struct {
	Vals   []starlark.Value
	OnNext func()
}

func (n *Spy) String() string        { return "spy" }
func (n *Spy) Type() string          { return "spy" }
func (n *Spy) Freeze()               {}
func (n *Spy) Truth() starlark.Bool  { return true }
func (n *Spy) Hash() (uint32, error) { return 0, fmt.Errorf("unhashable type: spy") }
func (n *Spy) Iterate() starlark.Iterator {
	return &spyIter{n, 0}
}

type spyIter struct {
	s *Spy
	i int
}

func (it *spyIter) Next(p *starlark.Value) bool {
	if it.s.OnNext != nil {
		it.s.OnNext()
	}
	if it.i < len(it.s.Vals) {
		*p = it.s.Vals[it.i]
		it.i++
		return true
	}
	return false
}
func (it *spyIter) Done() {}
