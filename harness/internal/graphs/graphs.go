// Package graphs generates object-graph descriptions (shared, nested, cyclic;
// closures over mutable values; defaults; bound methods; host values passed in
// through predeclared), renders them as Starlark modules and instantiates them
// with the real interpreter, keeping a host-side registry that identifies every
// described object.  Shared by the C04 and C05 harnesses.
package graphs

import (
	"fmt"
	"sort"
	"strings"

	"go.starlark.net/starlark"
	"go.starlark.net/starlarkstruct"
	"go.starlark.net/syntax"

	"verifharness/internal/hx"
)

// ---------------------------------------------------------------- description

type Val [2]int64 // {0,a}: the integer atom a; {1,id}: reference to node id

func Atom(a int64) Val    { return Val{0, a} }
func Ref(id int) Val      { return Val{1, int64(id)} }
func (v Val) IsRef() bool { return v[0] == 1 }

type Node struct {
	ID        int      `json:"id"`
	Kind      string   `json:"kind"` // list dict set tuple struct ssum func bound
	Host      bool     `json:"host,omitempty"`
	PreFrozen bool     `json:"prefrozen,omitempty"`
	Exists    bool     `json:"exists"` // created before a failure planted inside build()
	Elems     []Val    `json:"elems"`  // final contents (dict: k,v,k,v,...; struct: field values in order f0,f1,..)
	Defaults  []Val    `json:"defaults,omitempty"`
	Captures  []int    `json:"captures,omitempty"`
	Recv      int      `json:"recv,omitempty"`
	Method    string   `json:"method,omitempty"`
	Fields    []string `json:"fields,omitempty"` // struct, ssum: field names, parallel to Elems (sorted)
	Sig       []string `json:"sig,omitempty"`    // func: the parameters after (which, opn, a, b): "dK" (default K), "reqJ", "*", "*args", "**kwargs"
	KwReq     []string `json:"kwreq,omitempty"`  // func: required keyword-only parameters
	K         int      `json:"k,omitempty"`      // tslice: Recv[:K]
	Extra     []Val    `json:"extra,omitempty"`  // tcat: Recv + (Extra...)
	A         int      `json:"a,omitempty"`      // ssum: the struct sum  A + B
	B         int      `json:"b,omitempty"`
	Init      []Val    `json:"-"`
}

type Link struct {
	Node int
	K    Val // dict only
	V    Val
}

type Stmt struct {
	New  int // node id, or -1
	Link *Link
}

type Desc struct {
	Nodes      []*Node `json:"nodes"`
	Globals    []int   `json:"globals"`        // node ids bound to g0, g1, ... in this order
	FailGlobal int     `json:"fail_global"`    // execution fails before global #k is assigned (-1: never)
	FailBuild  int     `json:"fail_build"`     // execution fails inside build() before statement #k (-1: never)
	Gaps       []int   `json:"gaps,omitempty"` // before global #k a global is declared that is never bound (if False: / for over [])
	Opts       int     `json:"opts"`           // FileOptions: 1 Recursion, 2 While, 4 no TopLevelControl, 8 no GlobalReassign
	Stmts      []Stmt  `json:"-"`
}

var MethodsOf = map[string][]string{
	"hbox": {"append"},
	"list": {"append", "clear", "extend", "index", "insert", "pop", "remove"},
	"dict": {"clear", "get", "items", "keys", "pop", "popitem", "setdefault", "update", "values"},
	"set":  {"add", "clear", "discard", "pop", "remove", "update", "union", "difference"},
}

func (d *Desc) hashable(v Val) bool {
	if !v.IsRef() {
		return true
	}
	n := d.Nodes[v[1]]
	switch n.Kind {
	case "list", "dict", "set", "hbox":
		return false
	case "ssum", "tslice", "tcat":
		return false // structurally equal to other values: never used as a key
	case "tuple", "struct":
		for _, e := range n.Init {
			if !d.hashable(e) {
				return false
			}
		}
		return true
	}
	return true // func, bound
}

func (nd *Node) add(kind string, k, v Val) {
	if kind == "dict" {
		nd.Elems = append(nd.Elems, k, v)
	} else {
		nd.Elems = append(nd.Elems, v)
	}
}

func hasKey(kind string, elems []Val, k Val) bool {
	step := 1
	if kind == "dict" {
		step = 2
	}
	for j := 0; j < len(elems); j += step {
		if elems[j] == k {
			return true
		}
	}
	return false
}

// add appends a node created inside build() with the given initial contents.
func (d *Desc) add(nd *Node) int {
	nd.ID = len(d.Nodes)
	nd.Exists = true
	if nd.Kind == "struct" {
		nd.Fields = nil
		for j := range nd.Init {
			nd.Fields = append(nd.Fields, fmt.Sprintf("f%02d_%d", nd.ID, j))
		}
	}
	if nd.Kind == "ssum" {
		m := map[string]Val{}
		for _, o := range []int{nd.A, nd.B} {
			on := d.Nodes[o]
			for j, name := range on.Fields {
				m[name] = on.Init[j]
			}
		}
		nd.Fields, nd.Init = nil, nil
		for name := range m {
			nd.Fields = append(nd.Fields, name)
		}
		sort.Strings(nd.Fields)
		for _, name := range nd.Fields {
			nd.Init = append(nd.Init, m[name])
		}
	}
	d.derivedTuple(nd)
	nd.Elems = append([]Val{}, nd.Init...)
	d.Nodes = append(d.Nodes, nd)
	d.Stmts = append(d.Stmts, Stmt{New: nd.ID})
	return nd.ID
}

// derivedTuple fills the contents of a tuple obtained by slicing / concatenating an earlier one.
func (d *Desc) derivedTuple(nd *Node) {
	switch nd.Kind {
	case "tslice":
		nd.Init = append([]Val{}, d.Nodes[nd.Recv].Init[:nd.K]...)
	case "tcat":
		nd.Init = append(append([]Val{}, d.Nodes[nd.Recv].Init...), nd.Extra...)
	}
}

// shape gives a function node a parameter list: its defaults spread over optional
// positional and keyword-only parameters, required keyword-only parameters before
// and after them, with or without *args / bare * / **kwargs.
func (nd *Node) shape(r *hx.Rand) {
	nd.Sig, nd.KwReq = nil, nil
	var pos, kw []string
	for j := range nd.Defaults {
		if r.Intn(2) == 0 {
			pos = append(pos, fmt.Sprintf("d%d", j))
		} else {
			kw = append(kw, fmt.Sprintf("d%d", j))
		}
	}
	for j := r.Intn(3); j > 0; j-- {
		name := fmt.Sprintf("req%d", j)
		kw = append(kw, name)
		nd.KwReq = append(nd.KwReq, name)
	}
	for k := len(kw) - 1; k > 0; k-- {
		j := r.Intn(k + 1)
		kw[k], kw[j] = kw[j], kw[k]
	}
	nd.Sig = pos
	if len(kw) > 0 {
		nd.Sig = append(nd.Sig, hx.Pick(r, []string{"*", "*args"}))
		nd.Sig = append(nd.Sig, kw...)
	} else if r.Intn(4) == 0 {
		nd.Sig = append(nd.Sig, "*args")
	}
	if r.Intn(3) == 0 {
		nd.Sig = append(nd.Sig, "**kwargs")
	}
	if nd.Sig == nil {
		nd.Sig = []string{}
	}
}

// Kwargs: the keyword arguments a call of the function node must supply.
func (nd *Node) Kwargs() []starlark.Tuple {
	var kw []starlark.Tuple
	for _, name := range nd.KwReq {
		kw = append(kw, starlark.Tuple{starlark.String(name), starlark.MakeInt(0)})
	}
	return kw
}

// motif appends a fresh list L that is reachable from a new global ONLY through
// one particular kind of edge (or a chain of them), so that every edge kind
// Freeze has to follow is exercised on its own; and a few corner values
// (containers that were never written).  Returns the id to bind to a global.
func (d *Desc) motif(r *hx.Rand) int {
	tag := func() Val { return Atom(int64(1000 + len(d.Nodes))) }
	L := d.add(&Node{Kind: "list", Init: []Val{Atom(int64(r.Intn(6)))}})
	frozenStruct := -1
	for _, nd := range d.Nodes {
		if nd.Kind == "struct" && nd.Host && nd.PreFrozen {
			frozenStruct = nd.ID
		}
	}
	switch r.Intn(22) {
	case 20, 21: // L is a value of a dict ONLY in entries that live in overflow buckets of one long chain
		var kv []Val
		n := 10 + r.Intn(14)
		for i := 0; i < n; i++ {
			v := Atom(int64(i % 5))
			if i >= 8 && (i%2 == 0 || i == n-1) {
				v = Ref(L)
			}
			kv = append(kv, Atom(int64(5+4096*(i+1))), v)
		}
		return d.add(&Node{Kind: "dict", Init: kv})
	case 18, 19: // a bound method of a HOST-DEFINED mutable value, itself reachable only through the method
		hb := d.add(&Node{Kind: "hbox", Init: []Val{Ref(L)}})
		b := d.add(&Node{Kind: "bound", Recv: hb, Method: "append"})
		if r.Bool() {
			return b
		}
		return d.add(&Node{Kind: "dict", Init: []Val{Atom(1), Ref(b)}})
	case 16: // a tuple with spare capacity: a prefix slice of a longer one
		base := d.add(&Node{Kind: "tuple", Init: []Val{tag(), Ref(L), Atom(7), Atom(8)}})
		return d.add(&Node{Kind: "tslice", Recv: base, K: 2})
	case 17: // ... and the result of an earlier concatenation
		base := d.add(&Node{Kind: "tuple", Init: []Val{tag(), Ref(L)}})
		return d.add(&Node{Kind: "tcat", Recv: base, Extra: []Val{Atom(7), Atom(8), Atom(9)}})
	case 0:
		return d.add(&Node{Kind: "list", Init: []Val{Ref(L)}})
	case 1:
		return d.add(&Node{Kind: "tuple", Init: []Val{tag(), Ref(L)}})
	case 2:
		return d.add(&Node{Kind: "dict", Init: []Val{Atom(1), Ref(L)}})
	case 3: // dict KEY: a bound method of L
		b := d.add(&Node{Kind: "bound", Recv: L, Method: "append"})
		return d.add(&Node{Kind: "dict", Init: []Val{Ref(b), Atom(1)}})
	case 4: // dict KEY: a closure over L
		fn := &Node{Kind: "func", Captures: []int{L}}
		fn.shape(r)
		f := d.add(fn)
		return d.add(&Node{Kind: "dict", Init: []Val{Ref(f), Atom(1)}})
	case 5: // dict KEY: a tuple that holds a bound method of L
		b := d.add(&Node{Kind: "bound", Recv: L, Method: "extend"})
		t := d.add(&Node{Kind: "tuple", Init: []Val{tag(), Ref(b)}})
		return d.add(&Node{Kind: "dict", Init: []Val{Ref(t), Atom(1)}})
	case 6: // set element: a bound method of L
		b := d.add(&Node{Kind: "bound", Recv: L, Method: "pop"})
		return d.add(&Node{Kind: "set", Init: []Val{Ref(b)}})
	case 7:
		return d.add(&Node{Kind: "struct", Init: []Val{tag(), Ref(L)}})
	case 8, 9: // a struct sum one operand of which was frozen by the host beforehand
		s := d.add(&Node{Kind: "struct", Init: []Val{tag(), Ref(L)}})
		if frozenStruct < 0 {
			return s
		}
		a, b := s, frozenStruct
		if r.Bool() {
			a, b = b, a
		}
		return d.add(&Node{Kind: "ssum", A: a, B: b})
	case 10: // a default, somewhere in a parameter list of any shape
		fn := &Node{Kind: "func", Defaults: []Val{Atom(3), Ref(L), Atom(4)}[r.Intn(2) : 2+r.Intn(2)]}
		fn.shape(r)
		return d.add(fn)
	case 11:
		fn := &Node{Kind: "func", Captures: []int{L}}
		fn.shape(r)
		return d.add(fn)
	case 12:
		return d.add(&Node{Kind: "bound", Recv: L, Method: "insert"})
	case 13: // a chain
		s := d.add(&Node{Kind: "struct", Init: []Val{tag(), Ref(L)}})
		dd := d.add(&Node{Kind: "dict", Init: []Val{Atom(1), Ref(s)}})
		t := d.add(&Node{Kind: "tuple", Init: []Val{tag(), Ref(dd)}})
		return d.add(&Node{Kind: "list", Init: []Val{Ref(t)}})
	case 14: // containers that were never written: {} and set() keep their zero tables
		e := d.add(&Node{Kind: "dict"})
		return d.add(&Node{Kind: "list", Init: []Val{Ref(e), Ref(L)}})
	default:
		e := d.add(&Node{Kind: "set"})
		return d.add(&Node{Kind: "tuple", Init: []Val{tag(), Ref(e), Ref(L)}})
	}
}

// Corner is a fixed world of corner values: containers that were never written,
// large ones (hash tables with overflow buckets), and one of each kind.
func Corner() *Desc {
	d := &Desc{FailGlobal: -1, FailBuild: -1}
	var big, bigd []Val
	for i := 0; i < 40; i++ {
		big = append(big, Atom(int64(200+i)))
		bigd = append(bigd, Atom(int64(200+i)), Atom(int64(i%7)))
	}
	d.add(&Node{Kind: "dict"})
	d.add(&Node{Kind: "set"})
	d.add(&Node{Kind: "list"})
	d.add(&Node{Kind: "dict", Init: bigd})
	d.add(&Node{Kind: "set", Init: big})
	l := d.add(&Node{Kind: "list", Init: big})
	d.add(&Node{Kind: "tuple", Init: []Val{Atom(1006), Ref(0), Ref(l)}})
	d.add(&Node{Kind: "struct", Init: []Val{Atom(1007), Ref(1), Ref(2)}})
	d.add(&Node{Kind: "func", Defaults: []Val{Ref(3)}, Captures: []int{4}, Sig: []string{"*", "req1", "d0"}, KwReq: []string{"req1"}})
	d.add(&Node{Kind: "bound", Recv: 0, Method: "setdefault"})
	d.add(&Node{Kind: "bound", Recv: 1, Method: "add"})
	// a dict one bucket chain of which has overflow buckets; ol is a value only there
	ol := d.add(&Node{Kind: "list", Init: []Val{Atom(6)}})
	var okv []Val
	for i := 0; i < 20; i++ {
		v := Atom(int64(i))
		if i >= 9 {
			v = Ref(ol)
		}
		okv = append(okv, Atom(int64(5+4096*(i+1))), v)
	}
	d.add(&Node{Kind: "dict", Init: okv})
	// a bound method of a host-defined mutable value that nothing else refers to
	hl := d.add(&Node{Kind: "list", Init: []Val{Atom(3)}})
	hb := d.add(&Node{Kind: "hbox", Init: []Val{Atom(4), Ref(hl)}})
	d.add(&Node{Kind: "bound", Recv: hb, Method: "append"})
	// functions whose defaults sit after / before required keyword-only parameters
	la := d.add(&Node{Kind: "list", Init: []Val{Atom(2)}})
	lb := d.add(&Node{Kind: "dict", Init: []Val{Atom(1), Atom(1)}})
	d.add(&Node{Kind: "func", Defaults: []Val{Ref(la), Ref(lb)}, Sig: []string{"*args", "req1", "d0", "req2", "d1", "**kwargs"}, KwReq: []string{"req1", "req2"}})
	lc := d.add(&Node{Kind: "set", Init: []Val{Atom(20)}})
	d.add(&Node{Kind: "func", Defaults: []Val{Ref(lc), Atom(1)}, Sig: []string{"d1", "*", "d0", "req1"}, KwReq: []string{"req1"}})
	// tuples whose array is longer than they are
	tb := d.add(&Node{Kind: "tuple", Init: []Val{Atom(1090), Atom(1), Atom(2), Atom(3), Atom(4)}})
	d.add(&Node{Kind: "tslice", Recv: tb, K: 2})
	d.add(&Node{Kind: "tslice", Recv: tb, K: 3})
	d.add(&Node{Kind: "tcat", Recv: tb, Extra: []Val{Atom(5), Atom(6), Atom(7)}})
	// struct sums with exactly one operand frozen beforehand, in both orders
	h := d.add(&Node{Kind: "struct", Host: true, PreFrozen: true, Init: []Val{Atom(1011), Atom(5)}})
	l1 := d.add(&Node{Kind: "list", Init: []Val{Atom(1)}})
	s1 := d.add(&Node{Kind: "struct", Init: []Val{Atom(1013), Ref(l1)}})
	d.add(&Node{Kind: "ssum", A: s1, B: h})
	l2 := d.add(&Node{Kind: "dict", Init: []Val{Atom(1), Atom(2)}})
	s2 := d.add(&Node{Kind: "struct", Init: []Val{Atom(1016), Ref(l2)}})
	d.add(&Node{Kind: "ssum", A: h, B: s2})
	for i := range d.Nodes {
		if i == l1 || i == s1 || i == l2 || i == s2 || i == la || i == lb || i == lc || i == hl || i == hb || i == ol {
			continue // reachable from the globals only through the sums
		}
		d.Globals = append(d.Globals, i)
	}
	return d
}

// Gen generates a description for C04: 0-3 globals, 30% planted failures.
func Gen(r *hx.Rand) *Desc { return GenWith(r, false) }

// GenWith: with shared == true every object is bound to a global and no failure
// is planted (C05: a world of frozen values to share between threads).
func GenWith(r *hx.Rand, shared bool) *Desc {
	d := &Desc{FailGlobal: -1, FailBuild: -1}
	nhost := r.Intn(3)
	if r.Intn(4) == 0 {
		nhost = 0
	}
	n := nhost + 2 + r.Intn(9)
	anyVal := func(upto int) Val { // a value available when node `upto` is created
		if upto == 0 || r.Intn(3) == 0 {
			return Atom(int64(r.Intn(6)))
		}
		return Ref(r.Intn(upto))
	}
	for id := 0; id < n; id++ {
		nd := &Node{ID: id, Exists: true}
		host := id < nhost
		nd.Host = host
		kinds := []string{"list", "list", "dict", "dict", "set", "tuple", "tuple", "tslice", "tcat", "hbox", "struct", "ssum", "ssum", "func", "func", "bound"}
		if host {
			kinds = []string{"list", "dict", "set", "struct"}
		}
		nd.Kind = hx.Pick(r, kinds)
		if nd.Kind == "tslice" || nd.Kind == "tcat" {
			// derived from an earlier tuple of the module
			var cands []int
			for j := 0; j < id; j++ {
				k := d.Nodes[j].Kind
				if (k == "tuple" || k == "tslice" || k == "tcat") && (nd.Kind == "tcat" || len(d.Nodes[j].Init) >= 2) {
					cands = append(cands, j)
				}
			}
			if len(cands) == 0 {
				nd.Kind = "tuple"
			} else {
				nd.Recv = hx.Pick(r, cands)
				if nd.Kind == "tslice" {
					nd.K = 1 + r.Intn(len(d.Nodes[nd.Recv].Init)-1)
					// two equal prefixes of one array are one and the same Go value: keep them distinct
					root := func(x *Node) int {
						for x.Kind == "tslice" {
							x = d.Nodes[x.Recv]
						}
						return x.ID
					}
					for _, o := range d.Nodes {
						if o.Kind == "tslice" && o.K == nd.K && root(o) == root(d.Nodes[nd.Recv]) {
							nd.Kind = "tuple"
						}
					}
				} else {
					for j := 1 + r.Intn(3); j > 0; j-- {
						nd.Extra = append(nd.Extra, Atom(int64(30+j)))
					}
				}
				d.derivedTuple(nd)
			}
		}
		if nd.Kind == "ssum" {
			// the sum of two earlier structs (one of them possibly a frozen host struct)
			var cands []int
			for j := 0; j < id; j++ {
				if d.Nodes[j].Kind == "struct" || d.Nodes[j].Kind == "ssum" {
					cands = append(cands, j)
				}
			}
			if len(cands) < 2 {
				nd.Kind = "struct"
			} else {
				nd.A = hx.Pick(r, cands)
				nd.B = hx.Pick(r, cands)
				// often: exactly one operand is a struct the host froze beforehand
				var frozen, fresh []int
				for _, c := range cands {
					if d.Nodes[c].PreFrozen {
						frozen = append(frozen, c)
					} else if !d.Nodes[c].Host {
						fresh = append(fresh, c)
					}
				}
				if len(frozen) > 0 && len(fresh) > 0 && r.Intn(3) > 0 {
					nd.A, nd.B = hx.Pick(r, frozen), hx.Pick(r, fresh)
					if r.Bool() {
						nd.A, nd.B = nd.B, nd.A
					}
				}
			}
		}
		if nd.Kind == "bound" {
			// receiver: an earlier list/dict/set
			var cands []int
			for j := 0; j < id; j++ {
				if _, ok := MethodsOf[d.Nodes[j].Kind]; ok {
					cands = append(cands, j)
				}
			}
			if len(cands) == 0 {
				nd.Kind = "list"
			} else {
				nd.Recv = hx.Pick(r, cands)
				nd.Method = hx.Pick(r, MethodsOf[d.Nodes[nd.Recv].Kind])
			}
		}
		k := r.Intn(4)
		// now and then a LARGE container (hash tables with overflow buckets, long
		// slices), the interesting references sitting behind the padding
		pad := 0
		if r.Intn(12) == 0 {
			pad = 9 + r.Intn(40)
		}
		// half of the large tables are SKEWED: keys congruent modulo 4096 have equal low hash
		// bits (Int.Hash multiplies by an odd constant), so they all go to one bucket chain
		// and the entries after the eighth live in overflow buckets
		skew := r.Bool()
		for i := 0; i < pad; i++ {
			key := int64(200 + i)
			if skew && nd.Kind != "list" {
				key = int64(5 + 4096*(i+1))
			}
			switch nd.Kind {
			case "list", "set":
				nd.Init = append(nd.Init, Atom(key))
			case "dict":
				v := Atom(int64(i % 7))
				if i >= 8 && r.Intn(3) == 0 {
					v = anyVal(id) // a reference stored in an overflow bucket
				}
				nd.Init = append(nd.Init, Atom(key), v)
			}
		}
		switch nd.Kind {
		case "list", "hbox":
			for i := 0; i < k; i++ {
				nd.Init = append(nd.Init, anyVal(id))
			}
		case "tuple", "struct":
			nd.Init = append(nd.Init, Atom(int64(1000+id))) // unique tag: tuples and structs compare structurally
			for i := 0; i < k; i++ {
				nd.Init = append(nd.Init, anyVal(id))
			}
			if nd.Kind == "struct" {
				for j := range nd.Init {
					nd.Fields = append(nd.Fields, fmt.Sprintf("f%02d_%d", id, j))
				}
			}
		case "ssum":
			// x + y: the fields of both, those of y winning; sorted by name
			m := map[string]Val{}
			for _, o := range []int{nd.A, nd.B} {
				on := d.Nodes[o]
				for j, name := range on.Fields {
					m[name] = on.Init[j]
				}
			}
			for name := range m {
				nd.Fields = append(nd.Fields, name)
			}
			sort.Strings(nd.Fields)
			for _, name := range nd.Fields {
				nd.Init = append(nd.Init, m[name])
			}
		case "dict":
			for i := 0; i < k; i++ {
				key := Atom(int64(10 + i))
				if r.Intn(3) == 0 {
					if c := anyVal(id); c.IsRef() && d.hashable(c) {
						key = c
					}
				}
				if !hasKey("dict", nd.Init, key) {
					nd.Init = append(nd.Init, key, anyVal(id))
				}
			}
		case "set":
			for i := 0; i < k; i++ {
				e := Atom(int64(20 + i))
				if r.Intn(3) == 0 {
					if c := anyVal(id); c.IsRef() && d.hashable(c) {
						e = c
					}
				}
				if !hasKey("set", nd.Init, e) {
					nd.Init = append(nd.Init, e)
				}
			}
		case "func":
			ndef := r.Intn(3)
			for i := 0; i < ndef; i++ {
				nd.Defaults = append(nd.Defaults, anyVal(id))
			}
			nc := r.Intn(3)
			for i := 0; i < nc; i++ {
				c := nhost + r.Intn(n-nhost) // any variable of build(): earlier, the function itself, or later
				dup := false
				for _, x := range nd.Captures {
					if x == c {
						dup = true
					}
				}
				if !dup {
					nd.Captures = append(nd.Captures, c)
				}
			}
			if len(nd.Defaults)+len(nd.Captures) == 0 {
				nd.Defaults = []Val{Atom(0)}
			}
			nd.shape(r)
		}
		nd.Elems = append([]Val{}, nd.Init...)
		d.Nodes = append(d.Nodes, nd)
		d.Stmts = append(d.Stmts, Stmt{New: id})
		if host {
			if r.Intn(4) == 0 || (nd.Kind == "struct" && r.Bool()) {
				nd.PreFrozen = true
			}
			if id == nhost-1 {
				// a pre-frozen host value was frozen deeply (by the host, before the module ran)
				for changed := true; changed; {
					changed = false
					for _, x := range d.Nodes {
						if x.PreFrozen {
							for _, e := range x.Elems {
								if e.IsRef() && !d.Nodes[e[1]].PreFrozen {
									d.Nodes[e[1]].PreFrozen = true
									changed = true
								}
							}
						}
					}
				}
			}
			continue
		}
		// links: mutate an earlier (or this) container so that it refers to this node: cycles
		nl := r.Intn(3)
		for t := 0; t < nl; t++ {
			tgt := r.Intn(id + 1)
			tn := d.Nodes[tgt]
			if tn.PreFrozen {
				continue
			}
			v := Ref(id)
			if r.Intn(4) == 0 {
				v = anyVal(id + 1)
			}
			switch tn.Kind {
			case "list", "hbox":
				tn.add("list", v, v)
				d.Stmts = append(d.Stmts, Stmt{New: -1, Link: &Link{Node: tgt, V: v}})
			case "dict":
				key := Atom(int64(10000 + len(tn.Elems)))
				if v.IsRef() && d.hashable(v) && r.Intn(2) == 0 && !hasKey("dict", tn.Elems, v) {
					key, v = v, Atom(int64(r.Intn(6))) // the new object as a KEY
				}
				tn.add("dict", key, v)
				d.Stmts = append(d.Stmts, Stmt{New: -1, Link: &Link{Node: tgt, K: key, V: v}})
			case "set":
				if d.hashable(v) && !hasKey("set", tn.Elems, v) {
					tn.add("set", v, v)
					d.Stmts = append(d.Stmts, Stmt{New: -1, Link: &Link{Node: tgt, V: v}})
				}
			}
		}
	}
	if shared {
		for i := 0; i < n; i++ {
			d.Globals = append(d.Globals, i)
		}
		return d
	}
	ng := r.Intn(4)
	for i := 0; i < ng; i++ {
		d.Globals = append(d.Globals, r.Intn(n))
	}
	// most graphs also get a value that is reachable through one particular edge kind only
	for k := r.Intn(3); k > 0; k-- {
		d.Globals = append(d.Globals, d.motif(r))
		ng++
	}
	// a struct sum with exactly one operand frozen beforehand is usually kept in a global
	for _, nd := range d.Nodes {
		if nd.Kind == "ssum" && d.Nodes[nd.A].PreFrozen != d.Nodes[nd.B].PreFrozen && r.Intn(3) > 0 {
			d.Globals = append(d.Globals, nd.ID)
			ng++
		}
	}
	// globals that are declared but never bound, interleaved with the bound ones
	if r.Intn(3) == 0 {
		for k := 1 + r.Intn(2); k > 0; k-- {
			d.Gaps = append(d.Gaps, r.Intn(ng+1))
		}
		sort.Ints(d.Gaps)
		d.Opts = r.Intn(4) | 8*r.Intn(2)
	} else {
		d.Opts = r.Intn(16)
	}
	switch r.Intn(10) {
	case 0, 1:
		d.FailGlobal = r.Intn(ng + 1)
	case 2:
		d.FailBuild = r.Intn(len(d.Stmts) + 1)
		// contents and existence at the point of failure
		for _, nd := range d.Nodes {
			nd.Exists = nd.Host
			nd.Elems = append([]Val{}, nd.Init...)
		}
		for i, s := range d.Stmts {
			if i >= d.FailBuild {
				break
			}
			if s.New >= 0 {
				d.Nodes[s.New].Exists = true
			} else {
				tn := d.Nodes[s.Link.Node]
				tn.add(tn.Kind, s.Link.K, s.Link.V)
			}
		}
	}
	return d
}

func (d *Desc) expr(v Val) string {
	if !v.IsRef() {
		return fmt.Sprint(v[1])
	}
	if d.Nodes[v[1]].Host {
		return fmt.Sprintf("h%d", v[1])
	}
	return fmt.Sprintf("n%d", v[1])
}

func (d *Desc) exprs(vs []Val) string {
	var s []string
	for _, v := range vs {
		s = append(s, d.expr(v))
	}
	return strings.Join(s, ", ")
}

const prelude = `def _apply(t, opn, a, b):
    if opn == "setindex":
        t[a] = b
    elif opn == "iadd":
        t += a
    elif opn == "ior":
        t |= a
    elif opn == "setfield":
        t.f0 = a
    else:
        return getattr(t, opn)(*a)
`

func (d *Desc) Source() string {
	var b strings.Builder
	b.WriteString(prelude)
	b.WriteString("def build():\n")
	for i, s := range d.Stmts {
		if i == d.FailBuild {
			b.WriteString("    boom()\n")
		}
		if s.New >= 0 {
			nd := d.Nodes[s.New]
			if nd.Host {
				continue
			}
			id := nd.ID
			switch nd.Kind {
			case "list":
				fmt.Fprintf(&b, "    n%d = reg(%d, [%s])\n", id, id, d.exprs(nd.Init))
			case "tuple":
				fmt.Fprintf(&b, "    n%d = reg(%d, (%s,))\n", id, id, d.exprs(nd.Init))
			case "hbox":
				fmt.Fprintf(&b, "    n%d = reg(%d, box(%s))\n", id, id, d.exprs(nd.Init))
			case "tslice":
				fmt.Fprintf(&b, "    n%d = reg(%d, %s[:%d])\n", id, id, d.expr(Ref(nd.Recv)), nd.K)
			case "tcat":
				fmt.Fprintf(&b, "    n%d = reg(%d, %s + (%s,))\n", id, id, d.expr(Ref(nd.Recv)), d.exprs(nd.Extra))
			case "set":
				fmt.Fprintf(&b, "    n%d = reg(%d, set([%s]))\n", id, id, d.exprs(nd.Init))
			case "dict":
				var kv []string
				for j := 0; j+1 < len(nd.Init); j += 2 {
					kv = append(kv, d.expr(nd.Init[j])+": "+d.expr(nd.Init[j+1]))
				}
				fmt.Fprintf(&b, "    n%d = reg(%d, {%s})\n", id, id, strings.Join(kv, ", "))
			case "struct":
				var fs []string
				for j, v := range nd.Init {
					fs = append(fs, fmt.Sprintf("%s=%s", nd.Fields[j], d.expr(v)))
				}
				fmt.Fprintf(&b, "    n%d = reg(%d, struct(%s))\n", id, id, strings.Join(fs, ", "))
			case "ssum":
				fmt.Fprintf(&b, "    n%d = reg(%d, %s + %s)\n", id, id, d.expr(Ref(nd.A)), d.expr(Ref(nd.B)))
			case "bound":
				fmt.Fprintf(&b, "    n%d = reg(%d, %s.%s)\n", id, id, d.expr(Ref(nd.Recv)), nd.Method)
			case "func":
				params := "which=None, opn=None, a=None, b=None"
				var tup []string
				for _, c := range nd.Captures {
					tup = append(tup, fmt.Sprintf("n%d", c))
				}
				for j := range nd.Defaults {
					tup = append(tup, fmt.Sprintf("d%d", j))
				}
				sig := nd.Sig
				if sig == nil {
					for j := range nd.Defaults {
						sig = append(sig, fmt.Sprintf("d%d", j))
					}
				}
				for _, tok := range sig {
					var j int
					if n, _ := fmt.Sscanf(tok, "d%d", &j); n == 1 {
						params += fmt.Sprintf(", d%d=%s", j, d.expr(nd.Defaults[j]))
					} else {
						params += ", " + tok
					}
				}
				fmt.Fprintf(&b, "    def f%d(%s):\n        return _apply((%s,)[which], opn, a, b)\n", id, params, strings.Join(tup, ", "))
				fmt.Fprintf(&b, "    n%d = reg(%d, f%d)\n", id, id, id)
			}
		} else {
			l := s.Link
			switch d.Nodes[l.Node].Kind {
			case "list", "hbox":
				fmt.Fprintf(&b, "    %s.append(%s)\n", d.expr(Ref(l.Node)), d.expr(l.V))
			case "dict":
				fmt.Fprintf(&b, "    %s[%s] = %s\n", d.expr(Ref(l.Node)), d.expr(l.K), d.expr(l.V))
			case "set":
				fmt.Fprintf(&b, "    %s.add(%s)\n", d.expr(Ref(l.Node)), d.expr(l.V))
			}
		}
	}
	if d.FailBuild == len(d.Stmts) {
		b.WriteString("    boom()\n")
	}
	b.WriteString("    return None\n")
	b.WriteString("build()\n")
	gap := func(i int) {
		for j, k := range d.Gaps {
			if k == i {
				if (i+j)%2 == 0 {
					fmt.Fprintf(&b, "if len([]) == 1:\n    u%d_%d = [0]\n", i, j)
				} else {
					fmt.Fprintf(&b, "for _e%d_%d in []:\n    u%d_%d = {}\n", i, j, i, j)
				}
			}
		}
	}
	for i, g := range d.Globals {
		if i == d.FailGlobal {
			b.WriteString("boom()\n")
		}
		gap(i)
		fmt.Fprintf(&b, "g%d = pick(%d)\n", i, g)
	}
	gap(len(d.Globals))
	if d.FailGlobal == len(d.Globals) {
		b.WriteString("boom()\n")
	}
	return b.String()
}

// ------------------------------------------------------------------ Instance

type Instance struct {
	D       *Desc
	Objs    []starlark.Value // by node id (nil: never created)
	Globals starlark.StringDict
	Err     error
	Thread  *starlark.Thread
	Predecl starlark.StringDict
}

func (in *Instance) Value(v Val) starlark.Value {
	if !v.IsRef() {
		return starlark.MakeInt64(v[1])
	}
	return in.Objs[v[1]]
}

// FileOptions of a description (Set is always needed: the modules call set()).
func (d *Desc) FileOptions() *syntax.FileOptions {
	return &syntax.FileOptions{Set: true, Recursion: d.Opts&1 != 0, While: d.Opts&2 != 0,
		TopLevelControl: d.Opts&4 == 0, GlobalReassign: d.Opts&8 == 0}
}

func Instantiate(d *Desc, src string) *Instance { return InstantiateWith(d, src, nil) }

// InstantiateWith calls onReg(id, v) when the module registers object id, i.e.
// while the module is still running and v is still mutable (host values: right
// after they are created, before the host freezes any of them).
func InstantiateWith(d *Desc, src string, onReg func(id int, v starlark.Value)) *Instance {
	in := &Instance{D: d, Objs: make([]starlark.Value, len(d.Nodes)), Thread: &starlark.Thread{Name: "c04"}}
	pre := starlark.StringDict{
		"struct": starlark.NewBuiltin("struct", starlarkstruct.Make),
		"reg": starlark.NewBuiltin("reg", func(_ *starlark.Thread, _ *starlark.Builtin, args starlark.Tuple, _ []starlark.Tuple) (starlark.Value, error) {
			id, _ := starlark.AsInt32(args[0])
			in.Objs[id] = args[1]
			if onReg != nil {
				onReg(id, args[1])
			}
			return args[1], nil
		}),
		"pick": starlark.NewBuiltin("pick", func(_ *starlark.Thread, _ *starlark.Builtin, args starlark.Tuple, _ []starlark.Tuple) (starlark.Value, error) {
			id, _ := starlark.AsInt32(args[0])
			if in.Objs[id] == nil {
				return starlark.None, nil
			}
			return in.Objs[id], nil
		}),
		"box": starlark.NewBuiltin("box", func(_ *starlark.Thread, _ *starlark.Builtin, args starlark.Tuple, _ []starlark.Tuple) (starlark.Value, error) {
			return &Box{elems: append([]starlark.Value{}, args...)}, nil
		}),
		"boom": starlark.NewBuiltin("boom", func(_ *starlark.Thread, _ *starlark.Builtin, _ starlark.Tuple, _ []starlark.Tuple) (starlark.Value, error) {
			return nil, fmt.Errorf("planted failure")
		}),
	}
	// host values, created (and possibly frozen) by the host before the module runs
	for _, nd := range d.Nodes {
		if !nd.Host {
			continue
		}
		switch nd.Kind {
		case "list":
			var es []starlark.Value
			for _, e := range nd.Init {
				es = append(es, in.Value(e))
			}
			in.Objs[nd.ID] = starlark.NewList(es)
		case "dict":
			dd := starlark.NewDict(4)
			for j := 0; j+1 < len(nd.Init); j += 2 {
				dd.SetKey(in.Value(nd.Init[j]), in.Value(nd.Init[j+1]))
			}
			in.Objs[nd.ID] = dd
		case "set":
			s := starlark.NewSet(4)
			for _, e := range nd.Init {
				s.Insert(in.Value(e))
			}
			in.Objs[nd.ID] = s
		case "struct":
			sd := starlark.StringDict{}
			for j, e := range nd.Init {
				sd[nd.Fields[j]] = in.Value(e)
			}
			in.Objs[nd.ID] = starlarkstruct.FromStringDict(starlarkstruct.Default, sd)
		}
		pre[fmt.Sprintf("h%d", nd.ID)] = in.Objs[nd.ID]
	}
	if onReg != nil {
		for _, nd := range d.Nodes {
			if nd.Host {
				onReg(nd.ID, in.Objs[nd.ID])
			}
		}
	}
	for _, nd := range d.Nodes {
		if nd.Host && nd.PreFrozen {
			in.Objs[nd.ID].Freeze()
		}
	}
	in.Predecl = pre
	in.Globals, in.Err = starlark.ExecFileOptions(d.FileOptions(), in.Thread, "m.star", src, pre)
	return in
}

func SameObj(a, b starlark.Value) bool {
	if a == nil || b == nil {
		return false
	}
	ta, ok1 := a.(starlark.Tuple)
	tb, ok2 := b.(starlark.Tuple)
	if ok1 || ok2 {
		return ok1 && ok2 && len(ta) > 0 && len(ta) == len(tb) && &ta[0] == &tb[0]
	}
	switch a.(type) {
	case *starlark.List, *starlark.Dict, *starlark.Set, *starlark.Function, *starlark.Builtin, *starlarkstruct.Struct, *Box:
		return a == b
	}
	return false
}

func (in *Instance) IDOf(v starlark.Value) (Val, bool) {
	if v == nil {
		return Val{2, 0}, true // an unassigned cell
	}
	if i, ok := v.(starlark.Int); ok {
		if x, ok := i.Int64(); ok {
			return Atom(x), true
		}
	}
	for id, o := range in.Objs {
		if SameObj(o, v) {
			return Ref(id), true
		}
	}
	if v == starlark.None {
		return Val{2, 1}, true
	}
	return Val{3, 0}, false // a value the description does not know
}

// children through the Go API, as values
func ChildrenOf(v starlark.Value) []starlark.Value {
	var out []starlark.Value
	switch v := v.(type) {
	case *Box:
		out = append(out, v.Elems()...)
	case *starlark.List:
		for i := 0; i < v.Len(); i++ {
			out = append(out, v.Index(i))
		}
	case starlark.Tuple:
		out = append(out, v...)
	case *starlark.Dict:
		for _, it := range v.Items() {
			out = append(out, it[0], it[1])
		}
	case *starlark.Set:
		it := v.Iterate()
		var x starlark.Value
		for it.Next(&x) {
			out = append(out, x)
		}
		it.Done()
	case *starlarkstruct.Struct:
		for _, name := range v.AttrNames() {
			x, _ := v.Attr(name)
			out = append(out, x)
		}
	case *starlark.Function:
		for i := 0; i < v.NumParams(); i++ {
			if dv := v.ParamDefault(i); dv != nil {
				out = append(out, dv)
			}
		}
		for i := 0; i < v.NumFreeVars(); i++ {
			_, fv := v.FreeVar(i)
			if fv != nil {
				out = append(out, fv)
			}
		}
	case *starlark.Builtin:
		if r := v.Receiver(); r != nil {
			out = append(out, r)
		}
	}
	return out
}

func (in *Instance) Contents(id int) []Val {
	var out []Val
	for _, c := range ChildrenOf(in.Objs[id]) {
		v, _ := in.IDOf(c)
		if v[0] == 2 {
			continue // None defaults of the probe parameters
		}
		out = append(out, v)
	}
	return out
}

// walk: the described objects reachable from the module's globals through the Go API
func (in *Instance) Walk() []int {
	var seen []starlark.Value
	var todo []starlark.Value
	names := in.Globals.Keys()
	for _, k := range names {
		todo = append(todo, in.Globals[k])
	}
	for len(todo) > 0 {
		v := todo[len(todo)-1]
		todo = todo[:len(todo)-1]
		dup := false
		for _, s := range seen {
			if SameObj(s, v) {
				dup = true
			}
		}
		switch v.(type) {
		case *starlark.List, *starlark.Dict, *starlark.Set, *starlark.Function, *starlark.Builtin, *starlarkstruct.Struct, starlark.Tuple, *Box:
		default:
			continue
		}
		if dup {
			continue
		}
		seen = append(seen, v)
		todo = append(todo, ChildrenOf(v)...)
	}
	var ids []int
	for id, o := range in.Objs {
		for _, s := range seen {
			if SameObj(o, s) {
				ids = append(ids, id)
				break
			}
		}
	}
	return ids
}

func (in *Instance) Snapshot() [][]Val {
	out := make([][]Val, len(in.Objs))
	for id := range in.Objs {
		if in.Objs[id] != nil {
			out[id] = in.Contents(id)
		}
	}
	return out
}

func EqVals(a, b []Val) bool {
	if len(a) != len(b) {
		return false
	}
	for i := range a {
		if a[i] != b[i] {
			return false
		}
	}
	return true
}

// ------------------------------------------------- oracle on the description

func (d *Desc) Reach() map[int]bool {
	seen := map[int]bool{}
	var todo []int
	for i, g := range d.Globals {
		if d.FailBuild >= 0 {
			break // execution failed inside build(): no g_i was assigned
		}
		if d.FailGlobal >= 0 && i >= d.FailGlobal {
			break
		}
		if d.Nodes[g].Exists {
			todo = append(todo, g)
		}
	}
	for len(todo) > 0 {
		x := todo[len(todo)-1]
		todo = todo[:len(todo)-1]
		if seen[x] {
			continue
		}
		seen[x] = true
		nd := d.Nodes[x]
		var next []Val
		next = append(next, nd.Elems...)
		next = append(next, nd.Defaults...)
		for _, v := range next {
			if v.IsRef() && d.Nodes[v[1]].Exists {
				todo = append(todo, int(v[1]))
			}
		}
		if nd.Kind == "func" {
			for _, c := range nd.Captures {
				if d.Nodes[c].Exists {
					todo = append(todo, c)
				}
			}
		}
		if nd.Kind == "bound" {
			todo = append(todo, nd.Recv)
		}
	}
	return seen
}

func SortVals(vs []Val) {
	sort.Slice(vs, func(i, j int) bool {
		if vs[i][0] != vs[j][0] {
			return vs[i][0] < vs[j][0]
		}
		return vs[i][1] < vs[j][1]
	})
}
