package graphs

import (
	"fmt"

	"go.starlark.net/starlark"
	"go.starlark.net/syntax"
)

// Multi is a world made by MORE THAN ONE module execution or by a host that
// freezes values while a function is still running: sibling closures sharing a
// variable, closures produced by factories of an already frozen module, closures
// with mutable defaults made after their module completed.  Target is the value
// that is reachable from the last module's globals (through the closure kept in
// global `keep`) and therefore must be frozen; Call attempts the mutation through
// Starlark code (calling the kept closure).
type Multi struct {
	Name   string
	Srcs   []string
	Err    string
	Target starlark.Value
	Call   func(th *starlark.Thread) error
}

var multiOpts = &syntax.FileOptions{Set: true}

func execOrErr(m *Multi, name, src string, pre starlark.StringDict) starlark.StringDict {
	m.Srcs = append(m.Srcs, "# "+name+"\n"+src)
	g, err := starlark.ExecFileOptions(multiOpts, &starlark.Thread{Name: name}, name, src, pre)
	if err != nil && m.Err == "" {
		m.Err = name + ": " + err.Error()
	}
	return g
}

func finishMulti(m *Multi, g starlark.StringDict) *Multi {
	keep := g["keep"]
	if keep == nil {
		if m.Err == "" {
			m.Err = "no global keep"
		}
		return m
	}
	v, err := starlark.Call(&starlark.Thread{Name: "look"}, keep, starlark.Tuple{starlark.None}, nil)
	if err != nil {
		m.Err = "calling keep(None): " + err.Error()
		return m
	}
	m.Target = v
	m.Call = func(th *starlark.Thread) error {
		_, err := starlark.Call(th, keep, starlark.Tuple{starlark.MakeInt(7)}, nil)
		return err
	}
	return m
}

// every kept closure has the shape  keep(v): v == None -> return the captured value; else mutate it with v
func body(lit string) string {
	if lit[0] == '[' {
		return "        if v != None:\n            x.append(v)\n        return x\n"
	}
	return "        if v != None:\n            x[v] = v\n        return x\n"
}

// MultiModules: the variants.
func MultiModules() []func() *Multi {
	var out []func() *Multi
	freeze := starlark.NewBuiltin("freeze", func(_ *starlark.Thread, _ *starlark.Builtin, args starlark.Tuple, _ []starlark.Tuple) (starlark.Value, error) {
		args[0].Freeze() // the Go API, called by a host built-in while the caller is still running
		return starlark.None, nil
	})
	for _, lits := range [][2]string{{"[1]", "[2]"}, {"{1: 1}", "{2: 2}"}} {
		lits := lits
		for _, rebind := range []bool{true, false} {
			rebind := rebind
			for _, how := range []string{"host-freeze", "other-module"} {
				how := how
				out = append(out, func() *Multi {
					// two sibling closures share x; one is frozen early; x is rebound; the OTHER one is kept
					m := &Multi{Name: fmt.Sprintf("siblings:%s:rebind=%v:%s", how, rebind, lits[0])}
					pre := starlark.StringDict{"freeze": freeze}
					pre["run_b"] = starlark.NewBuiltin("run_b", func(_ *starlark.Thread, _ *starlark.Builtin, args starlark.Tuple, _ []starlark.Tuple) (starlark.Value, error) {
						execOrErr(m, "b.star", "g = f\n", starlark.StringDict{"f": args[0]})
						return starlark.None, nil
					})
					early := "freeze(f)"
					if how == "other-module" {
						early = "run_b(f)"
					}
					src := "def outer():\n    x = " + lits[0] + "\n    def f(v):\n" + body(lits[0]) + "    def g(v):\n" + body(lits[0]) + "    " + early + "\n"
					if rebind {
						src += "    x = " + lits[1] + "\n"
					}
					src += "    return g\nkeep = outer()\n"
					return finishMulti(m, execOrErr(m, "a.star", src, pre))
				})
			}
		}
		// closures made by a factory of a module that has ALREADY completed
		for _, shape := range []string{"local", "default", "nested", "lambda"} {
			shape := shape
			out = append(out, func() *Multi {
				m := &Multi{Name: "factory:" + shape + ":" + lits[0]}
				var lib string
				switch shape {
				case "local":
					lib = "def make():\n    x = " + lits[0] + "\n    def keep(v):\n" + body(lits[0]) + "    return keep\n"
				case "default":
					lib = "def make():\n    def keep(v, x=" + lits[0] + "):\n" + body(lits[0]) + "    return keep\n"
				case "nested":
					lib = "def make():\n    def inner():\n        x = " + lits[0] + "\n        def keep(v):\n" + indent(body(lits[0])) + "        return keep\n    return inner()\n"
				default:
					if lits[0][0] == '[' {
						lib = "def make():\n    x = " + lits[0] + "\n    return lambda v: x if v == None else x.append(v)\n"
					} else {
						lib = "def make():\n    x = " + lits[0] + "\n    return lambda v: x if v == None else x.update([(v, v)])\n"
					}
				}
				g1 := execOrErr(m, "lib.star", lib, nil)
				return finishMulti(m, execOrErr(m, "user.star", "keep = make()\nalso = [make(), (make(),)]\n", starlark.StringDict{"make": g1["make"]}))
			})
		}
	}
	return out
}

func indent(s string) string {
	out := ""
	for _, line := range splitLines(s) {
		out += "    " + line + "\n"
	}
	return out
}

func splitLines(s string) []string {
	var ls []string
	cur := ""
	for _, c := range s {
		if c == '\n' {
			ls = append(ls, cur)
			cur = ""
		} else {
			cur += string(c)
		}
	}
	if cur != "" {
		ls = append(ls, cur)
	}
	return ls
}

// Mutable reports whether the target accepts a mutation through the Go API.
func (m *Multi) Mutable() bool {
	switch x := m.Target.(type) {
	case *starlark.List:
		return x.Append(starlark.MakeInt(3)) == nil
	case *starlark.Dict:
		return x.SetKey(starlark.MakeInt(3), starlark.MakeInt(3)) == nil
	}
	return false
}
