module verifharness

go 1.25.0

require (
	go.starlark.net v0.0.0
	google.golang.org/protobuf v1.36.11
)

require (
	github.com/chzyer/readline v1.5.1 // indirect
	golang.org/x/sys v0.42.0 // indirect
)

replace go.starlark.net => /repo
