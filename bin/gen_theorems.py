#!/usr/bin/env python3
"""bin/gen_theorems.py -- regenerate docs/THEOREMS.md from coq/Cxx/Properties.v."""
import os, re, json
ROOT = os.path.dirname(os.path.dirname(os.path.abspath(__file__)))
titles = {json.loads(l)["id"]: json.loads(l)["title"] for l in open(os.path.join(ROOT, "properties.jsonl"))}
out, total = [], 0
for pid in sorted(titles):
    src = open(os.path.join(ROOT, "coq", pid, "Properties.v")).read()
    th = re.findall(r"^Theorem\s+([A-Za-z0-9_']+)", src, re.M)
    ex = re.findall(r"^Example\s+([A-Za-z0-9_']+)", src, re.M)
    total += len(th)
    out.append("## %s — %d theorems, %d examples\n\n%s\n" % (pid, len(th), len(ex), ", ".join("`%s`" % t for t in th)))
head = "# Theorems per property (generated from coq/Cxx/Properties.v)\n\nTotal: %d theorems; `bin/coqchk-all` / `docs/coqchk-properties.log`: no axioms.\n\n" % total
open(os.path.join(ROOT, "docs", "THEOREMS.md"), "w").write(head + "\n".join(out))
print(total, "theorems")
