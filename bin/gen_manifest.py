#!/usr/bin/env python3
"""Assemble MANIFEST.json from the META dict of every checks/cNN.py."""
import importlib, json, os, sys
ROOT = os.path.dirname(os.path.dirname(os.path.abspath(__file__)))
sys.path.insert(0, ROOT)
props = [json.loads(l)["id"] for l in open(os.path.join(ROOT, "properties.jsonl"))]
checks, na = [], []
for pid in props:
    f = os.path.join(ROOT, "checks", pid.lower() + ".py")
    if not os.path.exists(f):
        na.append({"property_id": pid, "reason": "no check is registered for this property yet: its model and theorems (DESIGN.md section 8) are not built; machine-checked proof applies to it in principle"})
        continue
    m = importlib.import_module("checks." + pid.lower())
    meta = m.META
    c = {
        "property_id": pid,
        "quick_cmd": "bin/check %s --tier quick" % pid,
        "thorough_cmd": "bin/check %s --tier thorough" % pid,
        "evidence_file": "evidence/%s.json" % pid,
        "replay_cmd_template": "bin/check %s --replay {path}" % pid,
        "engine": "coq+harness",
        "level_claimed": {"category": meta["category"], "text": meta["text"], "design_ref": "DESIGN.md section 8, " + pid},
        "level_note": meta["note"],
        "technique": meta["technique"],
    }
    checks.append(c)
import subprocess
# hook commits in /repo: every commit touching a verif_*.go file (all are //go:build verif, add-only)
log = subprocess.run(["git", "-C", "/repo", "log", "--format=%H %s", "--", "*verif_*.go"], capture_output=True, text=True).stdout
hooks_commits = [l.split()[0] for l in log.splitlines() if l.strip()]
with open(os.path.join(ROOT, "MANIFEST.hooks"), "w") as f:
    f.write("# guard: build tag `verif` (files named verif_*.go, each starting with //go:build verif; add-only)\n")
    f.write("# commits in /repo that add hooks:\n")
    for l in log.splitlines():
        f.write(l + "\n")
man = {
    "version": 1,
    "setup_cmd": "bin/setup",
    "hooks": {
        "guard": "verif",
        "enable": "go build -tags verif (harness module /verif/harness, replace go.starlark.net => /repo, GOFLAGS=-mod=mod GOPROXY=off)",
        "baseline_off_cmd": "cd /repo && GOFLAGS=-mod=mod GOPROXY=off go test -vet=off -count=1 -timeout 25m ./...",
        "source_commits": hooks_commits,
        "add_only": True,
    },
    "engines": [{
        "name": "coq+harness", "path": "bin/check",
        "serves_properties": [c["property_id"] for c in checks],
        "kind_free_text": "Coq 8.16.1 models and theorems (coq/Cxx), tied to /repo by a Go correspondence harness (harness/cmd/cxx, built with -tags verif against the current working tree) whose observations are evaluated against the model and the specification inside Coq (vm_compute)",
    }],
    "checks": checks,
    "not_applicable": na,
    "notes": "See DESIGN.md. Known findings: known_findings/Cxx.json. Seeded breakages used to test the checks: seeded/.",
}
json.dump(man, open(os.path.join(ROOT, "MANIFEST.json"), "w"), indent=1)
print("claimed:", [c["property_id"] for c in checks])
